// Command worker runs the units of one property shard and writes
// result.json + digests.bin into -out.
package main

import (
	"flag"
	"fmt"
	"os"
	"strings"

	"verif/internal/ev"
	"verif/internal/props"
	"verif/internal/rng"
)

func main() {
	prop := flag.String("prop", "", "property id")
	tier := flag.String("tier", "quick", "quick|thorough")
	seed := flag.Uint64("seed", 1, "VERIF_SEED")
	shard := flag.Int("shard", 0, "shard index")
	shards := flag.Int("shards", 1, "number of shards")
	out := flag.String("out", ".", "output directory")
	only := flag.String("unit", "", "run only the unit with this exact name (replay)")
	mode := flag.String("mode", "plain", "build mode label (plain|race|gcstress|asan)")
	list := flag.Bool("list", false, "list unit names and exit")
	flag.Parse()

	res := ev.NewResult(*prop, *tier, *seed, *shard, *shards)
	res.Mode = *mode
	if err := res.SetCaseLog(*out + "/cases.log"); err != nil {
		fmt.Fprintln(os.Stderr, err)
		os.Exit(2)
	}
	units, err := props.Units(*prop, props.TierOf(*tier, *prop), *seed, *mode)
	if err != nil {
		fmt.Fprintln(os.Stderr, err)
		os.Exit(2)
	}
	if *list {
		for _, u := range units {
			fmt.Println(u.Name)
		}
		return
	}
	ran := 0
	for i, u := range units {
		if *only != "" {
			if u.Name != *only {
				continue
			}
		} else if int(rng.HashString(u.Name)%uint64(*shards)) != *shard {
			// units are spread by name hash: heavy unit types recur with a fixed period in the list
			continue
		}
		res.LogCase("unit %d %s", i, u.Name)
		before := res.NViolations
		u.Run(res)
		ran++
		if res.NViolations > before {
			res.LogCase("violation in %s", u.Name)
		}
	}
	res.Count("units_run", int64(ran))
	res.Done = true
	if err := res.Write(*out); err != nil {
		fmt.Fprintln(os.Stderr, err)
		os.Exit(2)
	}
	if res.NViolations > 0 {
		var names []string
		for _, v := range res.Violations {
			names = append(names, v.Unit)
		}
		fmt.Printf("violations=%d units=%s\n", res.NViolations, strings.Join(names, ","))
		os.Exit(1)
	}
}
