package props

import (
	"fmt"
	"runtime"
	"sync/atomic"
	"time"

	art "github.com/Clement-Jean/go-art"

	"verif/internal/engine"
	"verif/internal/ev"
)

// C18, cross-type recycling: trees with pointer-free values and trees whose values are the only
// reference to heap objects alternate in one process, each delete burst of one followed at once
// by an insert burst of the other. Whatever the library recycles between them (leaves, nodes),
// the collector must still see every stored pointer: a finalizer that runs while its object is
// stored, or a stored record that no longer reads back, refutes the property.
func c18CrossType(res *ev.Result, unit string, seed uint64) {
	const n = 400
	const rounds = 6
	stored := make([]atomic.Bool, 2*rounds*n+1)
	var early atomic.Int64
	fail := func(what, exp, obs string) {
		res.Violate(ev.Violation{Prop: "C18", Kind: "cross-type", Unit: unit, What: what, Expected: exp, Observed: obs})
	}
	keyS := func(i int) string { return fmt.Sprintf("k%05d-%x", i, uint64(i)*0x9E3779B97F4A7C15+seed) }
	type treeSet struct {
		name   string
		insU   func(i int)
		delU   func(i int)
		insP   func(i int, r *Rec)
		getP   func(i int) (*Rec, bool)
		delP   func(i int)
		insStr func(i int, s string)
		getStr func(i int) (string, bool)
		delStr func(i int)
	}
	mkAlpha := func() treeSet {
		u, u2 := art.NewAlphaSortedTree[string, uint64](), art.NewAlphaSortedTree[string, [2]uint64]()
		p, s := art.NewAlphaSortedTree[string, *Rec](), art.NewAlphaSortedTree[string, string]()
		return treeSet{"alpha/string",
			func(i int) { u.Insert(keyS(i), uint64(i)); u2.Insert(keyS(i), [2]uint64{uint64(i), 1}) },
			func(i int) { u.Delete(keyS(i)); u2.Delete(keyS(i)) },
			func(i int, r *Rec) { p.Insert(keyS(i), r) },
			func(i int) (*Rec, bool) { return p.Search(keyS(i)) },
			func(i int) { p.Delete(keyS(i)) },
			func(i int, x string) { s.Insert(keyS(i), x) },
			func(i int) (string, bool) { return s.Search(keyS(i)) },
			func(i int) { s.Delete(keyS(i)) }}
	}
	mkUnsigned := func() treeSet {
		u, u2 := art.NewUnsignedBinaryTree[uint64, uint64](), art.NewUnsignedBinaryTree[uint64, [2]uint64]()
		p, s := art.NewUnsignedBinaryTree[uint64, *Rec](), art.NewUnsignedBinaryTree[uint64, string]()
		kk := func(i int) uint64 { return uint64(i)*0x9E3779B97F4A7C15 + seed }
		return treeSet{"unsigned/uint64",
			func(i int) { u.Insert(kk(i), uint64(i)); u2.Insert(kk(i), [2]uint64{uint64(i), 1}) },
			func(i int) { u.Delete(kk(i)); u2.Delete(kk(i)) },
			func(i int, r *Rec) { p.Insert(kk(i), r) },
			func(i int) (*Rec, bool) { return p.Search(kk(i)) },
			func(i int) { p.Delete(kk(i)) },
			func(i int, x string) { s.Insert(kk(i), x) },
			func(i int) (string, bool) { return s.Search(kk(i)) },
			func(i int) { s.Delete(kk(i)) }}
	}
	for si, ts := range []treeSet{mkAlpha(), mkUnsigned()} {
		base := si * rounds * n // ids are never reused: a late finalizer of an earlier object cannot be mistaken
		for rd := 0; rd < rounds; rd++ {
			for i := 0; i < n; i++ {
				ts.insU(i)
			}
			for i := 0; i < n; i++ {
				ts.delU(i)
			}
			// at once: values that only the tree keeps alive
			for i := 0; i < n; i++ {
				id := uint64(base + rd*n + i + 1)
				r := mkRec(id)
				stored[id].Store(true)
				runtime.SetFinalizer(r, func(x *Rec) {
					if x.ID < uint64(len(stored)) && stored[x.ID].Load() {
						early.Add(1)
					}
				})
				ts.insP(i, r)
				ts.insStr(i, heapString("val", id))
			}
			runtime.GC()
			runtime.GC()
			time.Sleep(2 * time.Millisecond) // lets the finalizer goroutine run; not a verdict
			runtime.GC()
			for i := 0; i < n; i++ {
				id := uint64(base + rd*n + i + 1)
				r, ok := ts.getP(i)
				res.Evaluations++
				if !ok {
					fail(ts.name+": a stored pointer value is no longer found after collections", "present", "absent")
					return
				}
				if bad := checkRec(r, id); bad != "" {
					fail(ts.name+": a stored *struct value, inserted right after another tree of a pointer-free value type deleted its keys, no longer reads back after collections", fmt.Sprintf("record %d intact", id), bad)
					return
				}
				if x, ok := ts.getStr(i); !ok || x != heapString("val", id) {
					fail(ts.name+": a stored string value no longer reads back after collections", heapString("val", id), fmt.Sprintf("%q,%v", x, ok))
					return
				}
			}
			if e := early.Load(); e > 0 {
				fail(ts.name+": objects referenced only by values stored in a tree were finalized while still stored (the collector does not see the stored pointer)", "0 finalized", fmt.Sprintf("%d of %d", e, n))
				return
			}
			for i := 0; i < n; i++ {
				id := uint64(base + rd*n + i + 1)
				stored[id].Store(false)
				ts.delP(i)
				ts.delStr(i)
			}
			res.Inc("cross_type_rounds")
		}
	}
	h := ev.NewHasher()
	h.Str(unit)
	res.Distinct(h.Sum())
}

func c18CrossUnits(seed uint64) []engine.Unit {
	var us []engine.Unit
	for i := 0; i < 3; i++ {
		name := fmt.Sprintf("c18/cross-type-recycling/%d", i)
		sd := seed + uint64(i)*977
		us = append(us, engine.Unit{Name: name, Run: func(res *ev.Result) { c18CrossType(res, name, sd) }})
	}
	return us
}
