package props

import (
	"fmt"
	"runtime"
	"sort"
	"sync"
	"time"

	"verif/internal/engine"
	"verif/internal/ev"
	"verif/internal/kinds"
	"verif/internal/ref"
	"verif/internal/rng"
)

// C16: the race detector is the deciding oracle (the orchestrator parses its
// log); the harness additionally compares every result with a sequential
// reference. Goroutines share nothing but the published tree and a start
// barrier: private results, private PRNGs, private key buffers; no mutex or
// atomic is touched while the scenario runs (they would add happens-before
// edges and hide races).

type span struct {
	start, end time.Duration
	ops        int
}

func overlapPairs(sp []span) int {
	n := 0
	for i := range sp {
		for j := i + 1; j < len(sp); j++ {
			if sp[i].start < sp[j].end && sp[j].start < sp[i].end {
				n++
			}
		}
	}
	return n
}

// withLongKeys adds keys of 64-130 bytes (a family with a long shared path) to every pool
// of a byte-string kind: lookups of long keys take their own paths in an implementation.
func withLongKeys[K string | []byte](k *kinds.Kind[K]) *kinds.Kind[K] {
	pool := k.Pool
	k.Pool = func(r *rng.R, n int) []K {
		ps := pool(r, n)
		stem := make([]byte, 60+r.Intn(40))
		for i := range stem {
			stem[i] = byte('a' + r.Intn(3))
		}
		for i := 0; i < 16; i++ {
			key := append(append([]byte{}, stem...), byte('A'+i), byte('a'+r.Intn(26)))
			for j := 0; j < r.Intn(30); j++ {
				key = append(key, byte('a'+r.Intn(4)))
			}
			ps = append(ps, K(key))
		}
		return ps
	}
	return k
}

func sharedMakers() []func(cfg *engine.Config, res *ev.Result, name string, seed uint64) engine.Shared {
	mk := func(f func(cfg *engine.Config, res *ev.Result, name string, seed uint64) engine.Shared) func(*engine.Config, *ev.Result, string, uint64) engine.Shared {
		return f
	}
	return []func(cfg *engine.Config, res *ev.Result, name string, seed uint64) engine.Shared{
		mk(func(c *engine.Config, r *ev.Result, n string, s uint64) engine.Shared {
			return engine.BuildShared(withLongKeys(kinds.AlphaString()), c, r, n, s, 400, 200)
		}),
		mk(func(c *engine.Config, r *ev.Result, n string, s uint64) engine.Shared {
			return engine.BuildShared(withLongKeys(kinds.AlphaBytes()), c, r, n, s, 400, 200)
		}),
		mk(func(c *engine.Config, r *ev.Result, n string, s uint64) engine.Shared {
			return engine.BuildShared(kinds.Uint32(), c, r, n, s, 400, 200)
		}),
		mk(func(c *engine.Config, r *ev.Result, n string, s uint64) engine.Shared {
			return engine.BuildShared(kinds.Int64(), c, r, n, s, 400, 200)
		}),
		mk(func(c *engine.Config, r *ev.Result, n string, s uint64) engine.Shared {
			return engine.BuildShared(kinds.Float64(), c, r, n, s, 400, 200)
		}),
		mk(func(c *engine.Config, r *ev.Result, n string, s uint64) engine.Shared {
			return engine.BuildShared(kinds.CompoundKind(kinds.Schema{Fields: []kinds.FieldType{kinds.FU16, kinds.FI32}, Str: true}, true), c, r, n, s, 400, 200)
		}),
	}
}

// worker bodies -----------------------------------------------------------

type gjob struct {
	res  *ev.Result
	run  func(r *rng.R) int // returns operations performed
	span span
}

func runGoroutines(res *ev.Result, unit string, seed uint64, procs int, jobs []*gjob) {
	old := runtime.GOMAXPROCS(procs)
	defer runtime.GOMAXPROCS(old)
	start := make(chan struct{})
	var wg sync.WaitGroup
	t0 := time.Now()
	for i, j := range jobs {
		wg.Add(1)
		go func(i int, j *gjob) {
			defer wg.Done()
			r := rng.New(seed, rng.HashString(unit), uint64(i))
			<-start
			j.span.start = time.Since(t0)
			j.span.ops = j.run(r)
			j.span.end = time.Since(t0)
		}(i, j)
	}
	close(start)
	wg.Wait()
	var spans []span
	for _, j := range jobs {
		res.Merge(j.res)
		spans = append(spans, j.span)
	}
	res.Count("goroutine_pairs_with_overlapping_run_intervals", int64(overlapPairs(spans)))
	res.Count("goroutines_run", int64(len(jobs)))
}

func privateJob(unit string, seed uint64, g int, steps int) *gjob {
	res := ev.NewResult("C16", "", seed, 0, 1)
	cfg := &engine.Config{Prop: "C16", Mons: engine.MMap | engine.MIter | engine.MSize | engine.MExt, Queries: 1}
	return &gjob{res: res, run: func(r *rng.R) int {
		// two private trees of mixed kinds per goroutine; fan-out pools so that nodes of every class circulate through the shared pools
		makers := c12Makers(r, 2)
		var sts []engine.Stepper
		for i, mk := range makers {
			sts = append(sts, mk(res, cfg, fmt.Sprintf("%s/g%d/tree%d", unit, g, i), seed))
		}
		ops := 0
		for ops < steps {
			progressed := false
			for _, st := range sts {
				if st.Step() {
					progressed = true
					ops++
				}
				if st.Dead() {
					return ops
				}
				if r.Chance(1, 4) {
					runtime.Gosched()
				}
			}
			if !progressed {
				break
			}
		}
		return ops
	}}
}

func readerJob(sh engine.Shared, unit string, seed uint64, g int, rounds int) *gjob {
	res := ev.NewResult("C16", "", seed, 0, 1)
	rd := sh.NewReader(res, fmt.Sprintf("%s/reader%d", unit, g))
	return &gjob{res: res, run: func(r *rng.R) int {
		n := 0
		for i := 0; i < rounds && !rd.Dead(); i++ {
			rd.Round(r)
			n++
			if r.Chance(1, 4) {
				runtime.Gosched()
			}
		}
		return n
	}}
}

// selfTestJob exercises the same scaffolding without a single go-art call:
// a race reported here is the harness's own.
func selfTestJob(seed uint64, g int) *gjob {
	res := ev.NewResult("C16", "", seed, 0, 1)
	return &gjob{res: res, run: func(r *rng.R) int {
		k := kinds.Uint32()
		m := ref.New(k.Cmp, k.ID)
		pool := k.Pool(r, 100)
		for i := 0; i < 3000; i++ {
			key := rng.Pick(r, pool)
			switch r.Intn(3) {
			case 0:
				m.Put(key, uint64(i))
			case 1:
				m.Del(key)
			default:
				m.Get(key)
			}
			res.Evaluations++
			if r.Chance(1, 8) {
				runtime.Gosched()
			}
		}
		res.Inc("selftest_ops")
		return 3000
	}}
}

func c16Units(t Tier, seed uint64) []engine.Unit {
	var us []engine.Unit
	type combo struct{ procs, gs int }
	combos := []combo{{1, 2}, {2, 8}, {4, 8}, {16, 32}, {2, 2}, {16, 8}, {1, 8}, {4, 32}, {1, 32}, {2, 32}, {4, 2}, {16, 2}}
	reps := 1
	if t.F > 1 {
		reps = 12
	}
	steps := 1600
	for rep := 0; rep < reps; rep++ {
		for ci, c := range combos {
			c := c
			if t.F == 1 && ci >= 6 {
				// quick: 6 processor/goroutine combinations per scenario
				break
			}
			// S0 self-test (once per combination in rep 0)
			if rep == 0 && ci < 3 {
				name := fmt.Sprintf("c16/S0-selftest/p%d-g%d", c.procs, c.gs)
				us = append(us, engine.Unit{Name: name, Run: func(res *ev.Result) {
					var jobs []*gjob
					for g := 0; g < c.gs; g++ {
						jobs = append(jobs, selfTestJob(seed, g))
					}
					runGoroutines(res, name, seed, c.procs, jobs)
					res.Inc("units_selftest")
				}})
			}
			// S1 private trees
			{
				name := fmt.Sprintf("c16/S1-private/p%d-g%d/%d", c.procs, c.gs, rep)
				us = append(us, engine.Unit{Name: name, Run: func(res *ev.Result) {
					var jobs []*gjob
					for g := 0; g < c.gs; g++ {
						jobs = append(jobs, privateJob(name, seed, g, steps))
					}
					runGoroutines(res, name, seed, c.procs, jobs)
					res.Inc("units_S1_private_trees")
					h := ev.NewHasher()
					h.Str(name)
					res.Distinct(h.Sum())
					if res.WantSample() {
						res.Sample(map[string]any{"unit": name, "scenario": "S1 private trees", "GOMAXPROCS": c.procs, "goroutines": c.gs, "steps_per_goroutine": steps})
					}
				}})
			}
			// S2 shared readers, S3 mixed
			for si, mk := range sharedMakers() {
				if (si+ci+rep)%3 != 0 && t.F == 1 {
					continue // quick: a third of the (kind, combination) grid
				}
				mk := mk
				si := si
				name := fmt.Sprintf("c16/S2-shared-readers/k%d/p%d-g%d/%d", si, c.procs, c.gs, rep)
				us = append(us, engine.Unit{Name: name, Run: func(res *ev.Result) {
					cfg := &engine.Config{Prop: "C16", Mons: engine.MMap, Queries: 2, CheckEvery: []int{1000}}
					sh := mk(cfg, res, name+"/build", seed)
					if res.NViolations > 0 {
						return
					}
					var jobs []*gjob
					for g := 0; g < c.gs; g++ {
						jobs = append(jobs, readerJob(sh, name, seed, g, 60))
					}
					runGoroutines(res, name, seed, c.procs, jobs)
					res.Inc("units_S2_shared_readers")
					res.Inc("shared_kind_" + sh.Name())
					res.Max("max_shared_tree_keys", int64(sh.Len()))
					h := ev.NewHasher()
					h.Str(name)
					res.Distinct(h.Sum())
					if res.WantSample() {
						res.Sample(map[string]any{"unit": name, "scenario": "S2 shared readers", "tree": sh.Name(), "keys": sh.Len(), "GOMAXPROCS": c.procs, "goroutines": c.gs})
					}
				}})
				if (si+ci)%2 == 0 {
					name3 := fmt.Sprintf("c16/S3-mixed/k%d/p%d-g%d/%d", si, c.procs, c.gs, rep)
					us = append(us, engine.Unit{Name: name3, Run: func(res *ev.Result) {
						cfg := &engine.Config{Prop: "C16", Mons: engine.MMap, Queries: 2, CheckEvery: []int{1000}}
						sh := mk(cfg, res, name3+"/build", seed)
						if res.NViolations > 0 {
							return
						}
						var jobs []*gjob
						for g := 0; g < c.gs; g++ {
							if g%2 == 0 {
								jobs = append(jobs, readerJob(sh, name3, seed, g, 60))
							} else {
								jobs = append(jobs, privateJob(name3, seed, g, steps))
							}
						}
						runGoroutines(res, name3, seed, c.procs, jobs)
						res.Inc("units_S3_mixed")
						h := ev.NewHasher()
						h.Str(name3)
						res.Distinct(h.Sum())
					}})
				}
			}
		}
	}
	sort.SliceStable(us, func(i, j int) bool { return false })
	return us
}
