package props

import (
	"bytes"
	"fmt"
	"runtime"
	"strings"

	art "github.com/Clement-Jean/go-art"
	"golang.org/x/text/collate"
	"golang.org/x/text/language"

	"verif/internal/engine"
	"verif/internal/ev"
)

// Named probes: fixed micro-histories with their oracle, one per defect that
// was found on the pinned tree (regressions for the fix: commits) or that is
// still open (listed as finding: in KNOWN_FINDINGS.txt). A failing probe
// reports a violation carrying its name; the orchestrator turns a failing
// probe that is listed as an open finding into a KNOWN-FINDING line.

type probe struct {
	prop, name string
	run        func(fail func(what, exp, obs string))
}

func probeUnits(prop string) []engine.Unit {
	var us []engine.Unit
	for _, p := range allProbes() {
		if p.prop != prop {
			continue
		}
		p := p
		unit := "probe/" + p.name
		us = append(us, engine.Unit{Name: unit, Run: func(res *ev.Result) {
			failed := false
			fail := func(what, exp, obs string) {
				if failed {
					return
				}
				failed = true
				res.Violate(ev.Violation{Prop: p.prop, Kind: "probe", Unit: unit, Probe: p.name, What: what, Expected: exp, Observed: obs})
			}
			func() {
				defer func() {
					if r := recover(); r != nil {
						fail("probe "+p.name+" panicked", "returns normally", fmt.Sprint(r))
					}
				}()
				p.run(fail)
			}()
			res.Evaluations++
			res.Inc("probes_run")
			if !failed {
				res.Inc("probes_passed")
			}
		}})
	}
	return us
}

func collectKeys[K any, V any](seq func(func(K, V) bool)) []K {
	var out []K
	for k := range seq {
		out = append(out, k)
		if len(out) > 10000 {
			break
		}
	}
	return out
}

func allProbes() []probe {
	a12 := strings.Repeat("a", 12)
	a20 := strings.Repeat("a", 20)
	return []probe{
		{"C06", "gen/size-after-path-split", func(fail func(string, string, string)) {
			t := art.NewAlphaSortedTree[string, int]()
			t.Insert("abcde1", 1)
			t.Insert("abcde2", 2)
			t.Insert("abXYZ", 3)
			if t.Size() != 3 {
				fail("Size() after three distinct inserts, the third splitting a compressed path (alpha)", "3", fmt.Sprint(t.Size()))
			}
			u := art.NewUnsignedBinaryTree[uint32, int]()
			u.Insert(0x01020304, 1)
			u.Insert(0x01020305, 2)
			u.Insert(0x01990000, 3)
			if u.Size() != 3 {
				fail("Size() after three distinct inserts, the third splitting a compressed path (uint32)", "3", fmt.Sprint(u.Size()))
			}
		}},
		{"C14", "seq/topk-bottomk-redrain", func(fail func(string, string, string)) {
			t := art.NewUnsignedBinaryTree[uint16, int]()
			for i := 0; i < 5; i++ {
				t.Insert(uint16(i*100), i)
			}
			for name, s := range map[string]func(func(uint16, int) bool){"TopK(2)": t.TopK(2), "BottomK(2)": t.BottomK(2)} {
				first := collectKeys[uint16, int](s)
				second := collectKeys[uint16, int](s)
				if len(first) != 2 || fmt.Sprint(first) != fmt.Sprint(second) {
					fail(name+" iterated twice over the same sequence value", fmt.Sprint(first), fmt.Sprint(second))
				}
			}
		}},
		{"C03", "range/empty-tree", func(fail func(string, string, string)) {
			t := art.NewAlphaSortedTree[string, int]()
			for range t.Range("a", "b") {
				fail("Range on a new tree yields an element", "nothing", "element")
			}
			for range t.Range("a", "") {
				fail("Range with empty end on a new tree yields an element", "nothing", "element")
			}
			t.Insert("k", 1)
			t.Delete("k")
			for range t.Range("", "") {
				fail("Range on an emptied tree yields an element", "nothing", "element")
			}
			u := art.NewSignedBinaryTree[int64, int]()
			for range u.Range(-5, 5) {
				fail("Range on a new int64 tree yields an element", "nothing", "element")
			}
			f := art.NewFloatBinaryTree[float64, int]()
			for range f.Range(-1.5, 2.5) {
				fail("Range on a new float64 tree yields an element", "nothing", "element")
			}
		}},
		{"C03", "range/equal-bounds-deep", func(fail func(string, string, string)) {
			t := art.NewAlphaSortedTree[string, int]()
			keys := []string{"aab", "aac", "ab", "abbaab", "abbaac", "abbb", "b", "ba", "bab", "baba", "babb"}
			for i, k := range keys {
				t.Insert(k, i)
			}
			for _, k := range keys {
				got := collectKeys[string, int](t.Range(k, k))
				if len(got) != 1 || got[0] != k {
					fail(fmt.Sprintf("Range(%q,%q) for a stored key", k, k), "["+k+"]", fmt.Sprint(got))
					return
				}
			}
		}},
		{"C03", "range/int64-sparse", func(fail func(string, string, string)) {
			t := art.NewSignedBinaryTree[int64, int]()
			// two sibling subtrees under a 4-byte shared path: the first has no compressed
			// path (always expanded), the second has one and holds the bounds
			keys := []int64{0x0000000001010000, 0x0000000001020000, 0x0000000002556601, 0x0000000002556602}
			for i, k := range keys {
				t.Insert(k, i)
			}
			got := collectKeys[int64, int](t.Range(keys[2], keys[3]))
			if len(got) != 2 || got[0] != keys[2] || got[1] != keys[3] {
				fail("Range over two adjacent stored int64 keys whose subtree follows an expanded sibling", fmt.Sprint(keys[2:]), fmt.Sprint(got))
			}
		}},
		{"C01", "map/short-absent-key", func(fail func(string, string, string)) {
			t := art.NewAlphaSortedTree[string, int]()
			t.Insert(a20+"1", 1)
			t.Insert(a20+"2", 2)
			if _, ok := t.Search(a12); ok {
				fail("Search of an absent key shorter than the skipped path", "absent", "present")
			}
			if t.Delete(a12) {
				fail("Delete of an absent key shorter than the skipped path", "false", "true")
			}
			c := art.NewCollationSortedTree[string, int]()
			c.Insert("internationalisation", 1)
			c.Insert("internationalization", 2)
			if _, ok := c.Search("intern"); ok {
				fail("collation Search of an absent shorter key", "absent", "present")
			}
			if c.Delete("intern") {
				fail("collation Delete of an absent shorter key", "false", "true")
			}
		}},
		{"C04", "prefix/node48-on-path", func(fail func(string, string, string)) {
			t := art.NewAlphaSortedTree[string, int]()
			want := 0
			for i := 0; i < 30; i++ {
				c := string(rune('A' + i))
				t.Insert("ab"+c+"1", i)
				t.Insert("ab"+c+"2", i)
				want += 2
			}
			if got := len(collectKeys[string, int](t.Prefix("ab"))); got != want {
				fail("Prefix(\"ab\") with a 48-slot node on the path", fmt.Sprint(want), fmt.Sprint(got))
			}
			if got := collectKeys[string, int](t.Prefix("abC")); fmt.Sprint(got) != "[abC1 abC2]" {
				fail("Prefix(\"abC\") below a 48-slot node", "[abC1 abC2]", fmt.Sprint(got))
			}
		}},
		{"C04", "prefix/single-leaf", func(fail func(string, string, string)) {
			t := art.NewAlphaSortedTree[string, int]()
			t.Insert("\x00\x00hello", 1)
			if got := collectKeys[string, int](t.Prefix("\x00")); len(got) != 1 {
				fail("Prefix(\"\\x00\") on a single-key tree", "1 key", fmt.Sprint(len(got)))
			}
			if got := collectKeys[string, int](t.Prefix("zz")); len(got) != 0 {
				fail("Prefix(\"zz\") on a single-key tree", "0 keys", fmt.Sprint(len(got)))
			}
		}},
		{"C04", "prefix/lookalike-sibling", func(fail func(string, string, string)) {
			t := art.NewAlphaSortedTree[string, int]()
			for i, k := range []string{a12 + "bxy1", a12 + "bxy2", a12 + "cxyz1", a12 + "cxyz2"} {
				t.Insert(k, i)
			}
			got := collectKeys[string, int](t.Prefix(a12 + "cxyz"))
			if len(got) != 2 {
				fail("Prefix below a path longer than 10 bytes with a look-alike sibling", "2 keys", fmt.Sprint(got))
			}
		}},
		{"C13", "alias/spare-capacity", func(fail func(string, string, string)) {
			t := art.NewAlphaSortedTree[[]byte, int]()
			buf := []byte("hello world")
			t.Insert(buf[:5], 1)
			if string(buf) != "hello world" {
				fail("Insert(buf[:5]) changed the caller's array", "hello world", fmt.Sprintf("%q", buf))
			}
			copy(buf, "XXXXXXXXXXX")
			if _, ok := t.Search([]byte("hello")); !ok {
				fail("stored key changed after the caller overwrote its buffer", "hello present", "absent")
			}
		}},
		{"C17", "heap/collation-search", func(fail func(string, string, string)) {
			t := art.NewCollationSortedTree[string, int]()
			keys := make([]string, 100)
			for i := range keys {
				keys[i] = fmt.Sprintf("clé-%03d", i)
				t.Insert(keys[i], i)
			}
			before := liveHeap()
			const n = 200000
			for i := 0; i < n; i++ {
				t.Search(keys[i%100])
			}
			after := liveHeap()
			if d := int64(after) - int64(before); d > 512<<10 {
				fail(fmt.Sprintf("live heap after %d searches on a 100-key collation tree", n), "<= 512 KiB growth", fmt.Sprintf("%d bytes", d))
			}
			runtime.KeepAlive(t)
		}},
		{"C08", "coll/level-dropping-options", func(fail func(string, string, string)) {
			for name, opt := range map[string]collate.Option{"IgnoreCase": collate.IgnoreCase, "IgnoreDiacritics": collate.IgnoreDiacritics, "Loose": collate.Loose} {
				keys := []string{"a", "ab", "b"}
				if name == "IgnoreCase" {
					keys = []string{"a", "ab", "á", "b"}
				}
				t := art.NewCollationSortedTree[string, int](art.WithCollator[string, int](collate.New(language.Und, opt)))
				for i, k := range keys {
					t.Insert(k, i)
				}
				for i, k := range keys {
					if v, ok := t.Search(k); !ok || v != i {
						fail(fmt.Sprintf("collator option %s: Search(%q) after inserting %q", name, k, keys), fmt.Sprintf("(%d,true)", i), fmt.Sprintf("(%d,%v)", v, ok))
						return
					}
				}
			}
		}},
		{"C01", "coll/collator-equal-spelling", func(fail func(string, string, string)) {
			// the composed and the decomposed spelling of one text have the same sort key under
			// every collator: the second insert must not destroy the first (it used to replace
			// the leaf by a node without children: both keys gone, Size one too high, later panics)
			nfc, nfd := "r\u00e9sume", "re\u0301sume"
			for name, c := range map[string]*collate.Collator{"und": collate.New(language.Und), "und+IgnoreCase": collate.New(language.Und, collate.IgnoreCase)} {
				second := nfd
				if name == "und+IgnoreCase" {
					second = "R\u00c9SUME"
				}
				t := art.NewCollationSortedTree[string, int](art.WithCollator[string, int](c))
				t.Insert(nfc, 1)
				t.Insert("d9", 5)
				t.Insert(second, 2)
				t.Insert("B9", 3)
				n := 0
				for range t.All() {
					n++
				}
				if n != 3 || t.Size() != 3 {
					fail(fmt.Sprintf("%s: Insert(%q); Insert(\"d9\"); Insert(%q); Insert(\"B9\"): stored pairs / Size()", name, nfc, second), "3 / 3", fmt.Sprintf("%d / %d", n, t.Size()))
					return
				}
				k, v, ok := t.Maximum()
				if !ok || v != 2 || (k != nfc && k != second) {
					fail(fmt.Sprintf("%s: Maximum() after inserting two spellings the collator cannot tell apart", name), "one of the spellings with the latest value 2", fmt.Sprintf("(%q,%d,%v)", k, v, ok))
					return
				}
				if v, ok := t.Search("d9"); !ok || v != 5 {
					fail(name+": Search(\"d9\")", "(5,true)", fmt.Sprintf("(%d,%v)", v, ok))
					return
				}
			}
		}},
		// ---- open finding ----
		{"C01", "map/nul-extends-stored-key", func(fail func(string, string, string)) {
			t := art.NewAlphaSortedTree[string, int]()
			t.Insert("a", 1)
			t.Insert("a\x00", 2)
			if v, ok := t.Search("a"); !ok || v != 1 {
				fail("Insert(\"a\"); Insert(\"a\\x00\"); Search(\"a\")", "(1,true)", fmt.Sprintf("(%d,%v)", v, ok))
				return
			}
			u := art.NewAlphaSortedTree[[]byte, int]()
			u.Insert([]byte("a\x00b"), 1)
			u.Insert([]byte("a\x00c"), 2)
			u.Insert([]byte("a"), 3)
			if v, ok := u.Search([]byte("a")); !ok || v != 3 {
				fail("Insert(\"a\\x00b\"); Insert(\"a\\x00c\"); Insert(\"a\"); Search(\"a\")", "(3,true)", fmt.Sprintf("(%d,%v)", v, ok))
			}
		}},
	}
}

var _ = bytes.Equal
