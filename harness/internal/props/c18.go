package props

import (
	"fmt"
	"math"
	"runtime"
	"runtime/debug"
	"strconv"
	"strings"

	art "github.com/Clement-Jean/go-art"
	"golang.org/x/text/collate"
	"golang.org/x/text/language"

	"verif/internal/engine"
	"verif/internal/ev"
	"verif/internal/kinds"
	"verif/internal/rng"
)

// C18: the reference keeps recipes, not objects: the expected deep content of
// value id i is recomputed, so nothing but the tree keeps the real values
// (and key bytes) alive. A reference hidden from the collector is then freed
// (and clobbered: GODEBUG=clobberfree=1) and the deep comparison, checkptr or
// ASan reports it.

type Rec struct {
	ID   uint64
	Name string
	Tags []uint64
	Next *Rec
}

type Big struct {
	Pad  [30]uint64
	P    *uint64
	Tail uint64
}

func heapString(prefix string, id uint64) string {
	var sb strings.Builder
	sb.WriteString(prefix)
	sb.WriteString(strconv.FormatUint(id, 10))
	sb.WriteString("-payload-")
	sb.WriteString(strconv.FormatUint(id*0x9E3779B97F4A7C15, 16))
	return sb.String()
}

func mkRec(id uint64) *Rec {
	r := &Rec{ID: id, Name: heapString("rec", id)}
	for i := uint64(0); i < 1+id%5; i++ {
		r.Tags = append(r.Tags, id*3+i)
	}
	r.Next = &Rec{ID: id + 1, Name: heapString("next", id)}
	return r
}

func checkRec(r *Rec, id uint64) string {
	if r == nil {
		return "nil pointer"
	}
	if r.ID != id || r.Name != heapString("rec", id) {
		return fmt.Sprintf("record %d/%q", r.ID, r.Name)
	}
	if uint64(len(r.Tags)) != 1+id%5 {
		return fmt.Sprintf("tags len %d", len(r.Tags))
	}
	for i, t := range r.Tags {
		if t != id*3+uint64(i) {
			return fmt.Sprintf("tag %d = %d", i, t)
		}
	}
	if r.Next == nil || r.Next.ID != id+1 || r.Next.Name != heapString("next", id) {
		return "nested record differs"
	}
	return ""
}

type gcVal[V any] struct {
	name  string
	mk    func(id uint64) V
	check func(v V, id uint64) string
}

func valRec() gcVal[*Rec] { return gcVal[*Rec]{"*struct", mkRec, checkRec} }
func valString() gcVal[string] {
	return gcVal[string]{"string", func(id uint64) string { return heapString("v", id) }, func(v string, id uint64) string {
		if v != heapString("v", id) {
			return fmt.Sprintf("%q", v)
		}
		return ""
	}}
}
func valSlice() gcVal[[]uint64] {
	return gcVal[[]uint64]{"[]uint64", func(id uint64) []uint64 {
		s := make([]uint64, 2+id%6)
		for i := range s {
			s[i] = id ^ uint64(i)*0x1234567
		}
		return s
	}, func(v []uint64, id uint64) string {
		if uint64(len(v)) != 2+id%6 {
			return fmt.Sprintf("len %d", len(v))
		}
		for i := range v {
			if v[i] != id^uint64(i)*0x1234567 {
				return fmt.Sprintf("element %d = %#x", i, v[i])
			}
		}
		return ""
	}}
}
func valZero() gcVal[struct{}] {
	return gcVal[struct{}]{"struct{}", func(uint64) struct{} { return struct{}{} }, func(struct{}, uint64) string { return "" }}
}
func valBig() gcVal[Big] {
	return gcVal[Big]{"256-byte struct with interior pointer", func(id uint64) Big {
		var b Big
		for i := range b.Pad {
			b.Pad[i] = id + uint64(i)
		}
		p := new(uint64)
		*p = ^id
		b.P = p
		b.Tail = id * 7
		return b
	}, func(b Big, id uint64) string {
		for i := range b.Pad {
			if b.Pad[i] != id+uint64(i) {
				return fmt.Sprintf("pad %d", i)
			}
		}
		if b.P == nil || *b.P != ^id {
			return "interior pointer target differs"
		}
		if b.Tail != id*7 {
			return "tail differs"
		}
		return ""
	}}
}
func valAny() gcVal[any] {
	return gcVal[any]{"any", func(id uint64) any {
		if id%2 == 0 {
			return mkRec(id)
		}
		return heapString("any", id)
	}, func(v any, id uint64) string {
		if id%2 == 0 {
			r, ok := v.(*Rec)
			if !ok {
				return fmt.Sprintf("dynamic type %T", v)
			}
			return checkRec(r, id)
		}
		s, ok := v.(string)
		if !ok || s != heapString("any", id) {
			return fmt.Sprintf("%v", v)
		}
		return ""
	}}
}
func valMap() gcVal[map[string]int] {
	return gcVal[map[string]int]{"map[string]int", func(id uint64) map[string]int {
		m := map[string]int{}
		for i := 0; i < 3; i++ {
			m[heapString("m", id+uint64(i))] = int(id) + i
		}
		return m
	}, func(m map[string]int, id uint64) string {
		if len(m) != 3 {
			return fmt.Sprintf("len %d", len(m))
		}
		for i := 0; i < 3; i++ {
			if m[heapString("m", id+uint64(i))] != int(id)+i {
				return "entry differs"
			}
		}
		return ""
	}}
}
func valU64() gcVal[uint64] {
	return gcVal[uint64]{"uint64", func(id uint64) uint64 { return id * 11 }, func(v uint64, id uint64) string {
		if v != id*11 {
			return fmt.Sprint(v)
		}
		return ""
	}}
}

type gcKey[K any] struct {
	name     string
	key      func(i int) K // fresh object every call
	id       func(k K) string
	scribble func(k K) // overwrite the caller's buffer after the call (slice keys)
	hasRange bool
	less     func(a, b K) bool
	// prefixOf derives a Prefix argument from a key (trees that define Prefix)
	prefixOf  func(k K, r *rng.R) K
	hasPrefix func(k, p K) bool
}

func gcRun[K any, V any](res *ev.Result, unit string, newTree func() art.Tree[K, V], gk gcKey[K], gv gcVal[V], seed uint64, nOps int) {
	r := rng.New(seed, rng.HashString(unit))
	debug.SetGCPercent(1)
	defer debug.SetGCPercent(100)
	t := newTree()
	live := map[int]uint64{} // key index -> value id (recipes only)
	index := map[string]int{}
	const universe = 160
	for i := 0; i < universe; i++ {
		index[gk.id(gk.key(i))] = i
	}
	gcEvery := rng.Pick(r, []int{1, 7, 64})
	nextID := uint64(1)
	var hist []string
	fail := func(what, exp, obs string) {
		h := hist
		if len(h) > 200 {
			h = h[len(h)-200:]
		}
		res.Violate(ev.Violation{Prop: "C18", Kind: gk.name + " -> " + gv.name, Unit: unit, What: what, Expected: exp, Observed: obs, History: h})
	}
	readBack := func() bool {
		for i, id := range live {
			k := gk.key(i)
			v, ok := t.Search(k)
			gk.scribble(k)
			res.Evaluations++
			if !ok {
				fail("a stored key is no longer found after garbage collection", fmt.Sprintf("key #%d present", i), "absent")
				return false
			}
			if msg := gv.check(v, id); msg != "" {
				fail("a stored value changed under garbage collection (read through Search)", fmt.Sprintf("deep content of value id %d", id), msg)
				return false
			}
		}
		n := 0
		for k, v := range t.All() {
			i, ok := index[gk.id(k)]
			if !ok {
				fail("All() yields a key that was never inserted (key bytes changed under garbage collection)", "one of the inserted keys", gk.id(k))
				return false
			}
			id, ok := live[i]
			if !ok {
				fail("All() yields a deleted key", "live key", gk.id(k))
				return false
			}
			if msg := gv.check(v, id); msg != "" {
				fail("a stored value changed under garbage collection (read through All)", fmt.Sprintf("deep content of value id %d", id), msg)
				return false
			}
			n++
			res.Evaluations++
		}
		if n != len(live) {
			fail("All() does not yield every stored pair after garbage collection", fmt.Sprint(len(live)), fmt.Sprint(n))
			return false
		}
		if gk.hasRange && len(live) > 0 {
			a, b := gk.key(r.Intn(universe)), gk.key(r.Intn(universe))
			if gk.less(b, a) {
				a, b = b, a
			}
			want := 0
			for i := range live {
				ki := gk.key(i)
				if !gk.less(ki, a) && !gk.less(b, ki) {
					want++
				}
			}
			got := 0
			for k, v := range t.Range(a, b) {
				i, ok := index[gk.id(k)]
				if !ok {
					fail("Range yields a key that was never inserted", "one of the inserted keys", gk.id(k))
					return false
				}
				if msg := gv.check(v, live[i]); msg != "" {
					fail("a stored value changed under garbage collection (read through Range)", fmt.Sprintf("deep content of value id %d", live[i]), msg)
					return false
				}
				got++
				res.Evaluations++
			}
			if got != want {
				fail("Range does not yield the stored pairs between the bounds after garbage collection", fmt.Sprint(want), fmt.Sprint(got))
				return false
			}
			res.Inc("gc_range_readbacks")
		}
		if gk.prefixOf != nil && len(live) > 0 {
			i := r.Intn(universe)
			full := gk.key(i)
			p := gk.prefixOf(full, r)
			want := 0
			for j := range live {
				if gk.hasPrefix(gk.key(j), p) {
					want++
				}
			}
			got := 0
			for k, v := range t.Prefix(p) {
				j, ok := index[gk.id(k)]
				if !ok {
					fail("Prefix yields a key that was never inserted", "one of the inserted keys", gk.id(k))
					return false
				}
				if msg := gv.check(v, live[j]); msg != "" {
					fail("a stored value changed under garbage collection (read through Prefix)", fmt.Sprintf("deep content of value id %d", live[j]), msg)
					return false
				}
				got++
				res.Evaluations++
			}
			if got != want {
				fail("Prefix does not yield the stored pairs starting with the argument after garbage collection", fmt.Sprint(want), fmt.Sprint(got))
				return false
			}
			res.Inc("gc_prefix_readbacks")
		}
		res.Inc("gc_readbacks")
		return true
	}
	for op := 0; op < nOps; op++ {
		i := r.Intn(universe)
		switch x := r.Intn(10); {
		case x < 6:
			id := nextID
			nextID++
			k := gk.key(i)
			hist = append(hist, fmt.Sprintf("Insert(key#%d, value id %d)", i, id))
			t.Insert(k, gv.mk(id))
			gk.scribble(k)
			live[i] = id
		case x < 8:
			k := gk.key(i)
			hist = append(hist, fmt.Sprintf("Delete(key#%d)", i))
			got := t.Delete(k)
			gk.scribble(k)
			_, want := live[i]
			if got != want {
				fail("Delete result wrong under garbage collection", fmt.Sprint(want), fmt.Sprint(got))
				return
			}
			delete(live, i)
		default:
			k := gk.key(i)
			v, ok := t.Search(k)
			gk.scribble(k)
			id, want := live[i]
			if ok != want {
				fail("Search result wrong under garbage collection", fmt.Sprint(want), fmt.Sprint(ok))
				return
			}
			if ok {
				if msg := gv.check(v, id); msg != "" {
					fail("a stored value changed under garbage collection", fmt.Sprintf("deep content of value id %d", id), msg)
					return
				}
			}
		}
		res.Evaluations++
		if op%gcEvery == 0 {
			runtime.GC()
			res.Inc("forced_collections")
			// churn the allocator so that freed memory is reused
			junk := make([][]byte, 0, 32)
			for j := 0; j < 32; j++ {
				junk = append(junk, make([]byte, 16+j*24))
			}
			_ = junk
			if op%(gcEvery*8) == 0 || gcEvery >= 7 {
				if !readBack() {
					return
				}
			}
		}
	}
	runtime.GC()
	if !readBack() {
		return
	}
	res.Inc("units_combo")
	res.Inc("combo_" + gk.name)
	h := ev.NewHasher()
	h.Str(unit)
	res.Distinct(h.Sum())
	if res.WantSample() {
		res.Sample(map[string]any{"unit": unit, "key_type": gk.name, "value_type": gv.name, "ops": nOps, "gc_every": gcEvery, "live_at_end": len(live)})
	}
	runtime.KeepAlive(t)
}

func noScribble[K any](K) {}

func strPrefix(k string, r *rng.R) string { return k[:r.Intn(len(k)+1)] }

func keyString() gcKey[string] {
	return gcKey[string]{"alpha/string", func(i int) string { return heapString("key-", uint64(i*7919)) }, func(k string) string { return k }, noScribble[string], true,
		func(a, b string) bool { return a < b }, strPrefix, strings.HasPrefix}
}

// keyLongPath: keys sharing a path longer than any inner node (checkptr sees
// every slice built over a node's inline bytes).
func keyLongPath() gcKey[string] {
	return gcKey[string]{"alpha/string-long-shared-path", func(i int) string {
		return strings.Repeat("p", 120) + strings.Repeat("q", 200*(i%2)) + heapString("-", uint64(i*7919))
	}, func(k string) string { return k }, noScribble[string], true, func(a, b string) bool { return a < b }, strPrefix, strings.HasPrefix}
}

func keyBytes() gcKey[[]byte] {
	return gcKey[[]byte]{"alpha/bytes", func(i int) []byte { return []byte(heapString("kb-", uint64(i*104729))) }, func(k []byte) string { return string(k) },
		func(k []byte) {
			for j := range k {
				k[j] = 0xEE
			}
		}, true, func(a, b []byte) bool { return string(a) < string(b) },
		func(k []byte, r *rng.R) []byte { return append([]byte{}, k[:r.Intn(len(k)+1)]...) },
		func(k, p []byte) bool { return strings.HasPrefix(string(k), string(p)) }}
}
func keyU32() gcKey[uint32] {
	return gcKey[uint32]{"uint32", func(i int) uint32 { return uint32(i) * 2654435761 }, func(k uint32) string { return strconv.FormatUint(uint64(k), 10) }, noScribble[uint32], true,
		func(a, b uint32) bool { return a < b }, nil, nil}
}
func keyI64() gcKey[int64] {
	return gcKey[int64]{"int64", func(i int) int64 {
		v := int64(i) * 0x1F3D5B79A1
		if i%2 == 1 {
			v = -v
		}
		return v
	}, func(k int64) string { return strconv.FormatInt(k, 10) }, noScribble[int64], true, func(a, b int64) bool { return a < b }, nil, nil}
}
func keyF64() gcKey[float64] {
	return gcKey[float64]{"float64", func(i int) float64 { return (float64(i) - 80.25) * math.Pi }, func(k float64) string { return strconv.FormatUint(math.Float64bits(k), 16) }, noScribble[float64], true,
		func(a, b float64) bool { return a < b }, nil, nil}
}
func keyColl() gcKey[string] {
	return gcKey[string]{"coll/string", func(i int) string { return heapString("Clefdevoute", uint64(i*31)) }, func(k string) string { return k }, noScribble[string], false, nil,
		func(k string, r *rng.R) string { return k[:r.Intn(12)] }, strings.HasPrefix} // prefixes inside the letters-only part
}
func keyCollRunes() gcKey[[]rune] {
	return gcKey[[]rune]{"coll/runes", func(i int) []rune { return []rune(heapString("ключ-", uint64(i*17))) }, func(k []rune) string { return string(k) },
		func(k []rune) {
			for j := range k {
				k[j] = 'Z'
			}
		}, false, nil, nil, nil}
}

var c18Schema = kinds.Schema{Fields: []kinds.FieldType{kinds.FU8, kinds.FI32}, Str: true}

func keyTuple() gcKey[kinds.Tuple] {
	k := kinds.CompoundKind(c18Schema, true)
	return gcKey[kinds.Tuple]{"compound(uint8,int32,string)", func(i int) kinds.Tuple {
		return kinds.Tuple{N: [4]uint64{uint64(i % 5), uint64(int64(i*37 - 900))}, S: heapString("t", uint64(i))}
	}, k.ID, noScribble[kinds.Tuple], true, func(a, b kinds.Tuple) bool { return k.Cmp(a, b) < 0 }, nil, nil}
}

func c18Combos[V any](us *[]engine.Unit, gv gcVal[V], seed uint64, nOps int, mode string) {
	add := func(name string, run func(res *ev.Result, unit string)) {
		unit := "c18/" + name + "/" + gv.name
		*us = append(*us, engine.Unit{Name: unit, Run: func(res *ev.Result) { run(res, unit) }})
	}
	add("alpha-string", func(res *ev.Result, unit string) {
		gcRun(res, unit, func() art.Tree[string, V] { return art.NewAlphaSortedTree[string, V]() }, keyString(), gv, seed, nOps)
	})
	add("alpha-string-long-path", func(res *ev.Result, unit string) {
		gcRun(res, unit, func() art.Tree[string, V] { return art.NewAlphaSortedTree[string, V]() }, keyLongPath(), gv, seed, nOps)
	})
	add("alpha-bytes", func(res *ev.Result, unit string) {
		gcRun(res, unit, func() art.Tree[[]byte, V] { return art.NewAlphaSortedTree[[]byte, V]() }, keyBytes(), gv, seed, nOps)
	})
	add("uint32", func(res *ev.Result, unit string) {
		gcRun(res, unit, func() art.Tree[uint32, V] { return art.NewUnsignedBinaryTree[uint32, V]() }, keyU32(), gv, seed, nOps)
	})
	add("int64", func(res *ev.Result, unit string) {
		gcRun(res, unit, func() art.Tree[int64, V] { return art.NewSignedBinaryTree[int64, V]() }, keyI64(), gv, seed, nOps)
	})
	add("float64", func(res *ev.Result, unit string) {
		gcRun(res, unit, func() art.Tree[float64, V] { return art.NewFloatBinaryTree[float64, V]() }, keyF64(), gv, seed, nOps)
	})
	add("coll-string", func(res *ev.Result, unit string) {
		gcRun(res, unit, func() art.Tree[string, V] {
			return art.NewCollationSortedTree[string, V](art.WithCollator[string, V](collate.New(language.French)))
		}, keyColl(), gv, seed, nOps)
	})
	add("coll-runes", func(res *ev.Result, unit string) {
		gcRun(res, unit, func() art.Tree[[]rune, V] { return art.NewCollationSortedTree[[]rune, V]() }, keyCollRunes(), gv, seed, nOps)
	})
	add("compound", func(res *ev.Result, unit string) {
		gcRun(res, unit, func() art.Tree[kinds.Tuple, V] {
			return art.NewCompoundTree[kinds.Tuple, V](kinds.TupleCodec{Schema: c18Schema, Lib: true, InPlace: true})
		}, keyTuple(), gv, seed, nOps)
	})
}

func c18Units(t Tier, seed uint64, mode string) []engine.Unit {
	nOps := 1500
	if t.F > 1 {
		nOps = 20000
	}
	if mode == "asan" {
		nOps /= 2
	}
	var us []engine.Unit
	c18Combos(&us, valRec(), seed, nOps, mode)
	c18Combos(&us, valString(), seed, nOps, mode)
	c18Combos(&us, valSlice(), seed, nOps, mode)
	c18Combos(&us, valZero(), seed, nOps, mode)
	c18Combos(&us, valBig(), seed, nOps, mode)
	c18Combos(&us, valAny(), seed, nOps, mode)
	c18Combos(&us, valMap(), seed, nOps, mode)
	c18Combos(&us, valU64(), seed, nOps, mode)
	us = append(us, c18CrossUnits(seed)...)
	return us
}
