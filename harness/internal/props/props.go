package props

import (
	"verif/internal/engine"
)

// Units dispatches a property to its unit list.
func Units(prop string, t Tier, seed uint64, mode string) ([]engine.Unit, error) {
	switch prop {
	case "C07":
		return c07Units(t, seed), nil
	case "C10":
		return c10Units(t, seed), nil
	case "C12":
		return c12Units(t, seed), nil
	case "C17":
		return c17Units(t, seed), nil
	case "C18":
		return c18Units(t, seed, mode), nil
	case "C16":
		return c16Units(t, seed), nil
	case "C13":
		return c13Units(t, seed, mode), nil
	}
	return EngineUnits(prop, t, seed)
}
