package props

import (
	"verif/internal/engine"
)

// Units dispatches a property to its unit list.
func Units(prop string, t Tier, seed uint64, mode string) ([]engine.Unit, error) {
	switch prop {
	case "C07":
		return append(probeUnits(prop), c07Units(t, seed)...), nil
	case "C10":
		return append(probeUnits(prop), c10Units(t, seed)...), nil
	case "C12":
		return append(probeUnits(prop), c12Units(t, seed)...), nil
	case "C17":
		return append(probeUnits(prop), c17Units(t, seed)...), nil
	case "C18":
		return append(probeUnits(prop), c18Units(t, seed, mode)...), nil
	case "C16":
		return append(probeUnits(prop), c16Units(t, seed)...), nil
	case "C13":
		return append(probeUnits(prop), c13Units(t, seed, mode)...), nil
	}
	us, err := EngineUnits(prop, t, seed)
	if err != nil {
		return nil, err
	}
	return append(probeUnits(prop), us...), nil
}
