package props

import (
	"verif/internal/engine"
)

// Units dispatches a property to its unit list.
func Units(prop string, t Tier, seed uint64, mode string) ([]engine.Unit, error) {
	switch prop {
	}
	return EngineUnits(prop, t, seed)
}
