package props

import (
	"fmt"
	"sort"

	art "github.com/Clement-Jean/go-art"

	"verif/internal/engine"
	"verif/internal/ev"
	"verif/internal/portable"
	"verif/internal/rng"
)

var c10Boundary = []byte{0x00, 0x01, 0x02, 0x41, 0x7E, 0x7F, 0x80, 0x81, 0xFE, 0xFF}

func c10fail(res *ev.Result, unit, what, exp, obs string) {
	res.Violate(ev.Violation{Prop: "C10", Kind: "node", Unit: unit, What: what, Expected: exp, Observed: obs})
}

// scalar specifications -------------------------------------------------

func firstLane4(w uint32, b byte) int {
	for i := 0; i < 4; i++ {
		if byte(w>>(8*uint(i))) == b {
			return i
		}
	}
	return -1
}

func specSearch16(keys *[16]byte, n int, b byte) int {
	for i := 0; i < n && i < 16; i++ {
		if keys[i] == b {
			return i
		}
	}
	return -1
}

func specInsertPos16(keys *[16]byte, n int, b byte) int {
	for i := 0; i < n && i < 16; i++ {
		if keys[i] > b {
			return i
		}
	}
	return -1
}

// checkSearch4 verifies one (word, probe): searchNode4 must return the
// lowest lane holding b, or -1. With that, `i != -1 && i < n` is the first
// occupied lane holding b for every fill count n, whatever the other lanes hold.
func checkSearch4(res *ev.Result, unit string, w uint32, b byte) bool {
	got := art.VerifSearchNode4(w, b)
	want := firstLane4(w, b)
	if got != want {
		c10fail(res, unit, fmt.Sprintf("searchNode4(%#08x, %#02x) is not the first lane holding the byte", w, b), fmt.Sprint(want), fmt.Sprint(got))
		return false
	}
	return true
}

// checkInsertPos4: occupied lanes 0..n-1 strictly ascending, b not among
// them; the effective insertion slot (-1 => n) must be the sorted position.
func checkInsertPos4(res *ev.Result, unit string, w uint32, n int, b byte) bool {
	want := 0
	for i := 0; i < n; i++ {
		if byte(w>>(8*uint(i))) < b {
			want++
		}
	}
	got := art.VerifInsertPosNode4(w, b)
	eff := got
	if got == -1 {
		eff = n
	}
	if eff != want {
		c10fail(res, unit, fmt.Sprintf("insertPosNode4(%#08x, %#02x) with %d occupied lanes gives the wrong slot", w, b, n), fmt.Sprint(want), fmt.Sprintf("%d (raw %d)", eff, got))
		return false
	}
	return true
}

func checkHelpers4(res *ev.Result, unit string, w uint32, r *rng.R) bool {
	lanes := func(x uint32) [4]byte {
		return [4]byte{byte(x), byte(x >> 8), byte(x >> 16), byte(x >> 24)}
	}
	o := lanes(w)
	for pos := 0; pos < 4; pos++ {
		if g := art.VerifGetAtPos(w, pos); g != o[pos] {
			c10fail(res, unit, fmt.Sprintf("getAtPos(%#08x,%d)", w, pos), fmt.Sprintf("%#02x", o[pos]), fmt.Sprintf("%#02x", g))
			return false
		}
		v := r.Byte()
		s := lanes(art.VerifSetAtPos(w, pos, v))
		for j := 0; j < 4; j++ {
			want := o[j]
			if j == pos {
				want = v
			}
			if s[j] != want {
				c10fail(res, unit, fmt.Sprintf("setAtPos(%#08x,%d,%#02x) lane %d", w, pos, v, j), fmt.Sprintf("%#02x", want), fmt.Sprintf("%#02x", s[j]))
				return false
			}
		}
		// shiftLeftClear: open a gap at pos (lanes below pos kept, lanes from pos move up)
		l := lanes(art.VerifShiftLeftClear(w, pos))
		for j := 0; j < 4; j++ {
			var want byte
			switch {
			case j < pos:
				want = o[j]
			case j == pos:
				continue // the gap itself is overwritten by the caller right away: not asserted
			default:
				want = o[j-1]
			}
			if l[j] != want {
				c10fail(res, unit, fmt.Sprintf("shiftLeftClear(%#08x,%d) lane %d", w, pos, j), fmt.Sprintf("%#02x", want), fmt.Sprintf("%#02x", l[j]))
				return false
			}
		}
		// shiftRightClear(pos+1) removes lane pos: lanes below kept, lanes above move down.
		// The top lane is left to the implementation (not asserted).
		rr := lanes(art.VerifShiftRightClear(w, pos+1))
		for j := 0; j < 3; j++ {
			want := o[j]
			if j >= pos {
				want = o[j+1]
			}
			if rr[j] != want {
				c10fail(res, unit, fmt.Sprintf("shiftRightClear(%#08x,%d) lane %d", w, pos+1, j), fmt.Sprintf("%#02x", want), fmt.Sprintf("%#02x", rr[j]))
				return false
			}
		}
	}
	if c := art.VerifConstruct(o[0], o[1], o[2], o[3]); c != w {
		c10fail(res, unit, "construct does not rebuild the word", fmt.Sprintf("%#08x", w), fmt.Sprintf("%#08x", c))
		return false
	}
	d := art.VerifDeconstruct(w)
	if len(d) != 4 || d[0] != o[0] || d[1] != o[1] || d[2] != o[2] || d[3] != o[3] {
		c10fail(res, unit, "deconstruct does not split the word", fmt.Sprint(o), fmt.Sprint(d))
		return false
	}
	return true
}

type n16impl struct {
	name      string
	search    func(keys *[16]byte, n uint8, b byte) int
	insertPos func(keys *[16]byte, n uint8, b byte) int
}

func n16impls() []n16impl {
	out := []n16impl{{"as-built", art.VerifSearchNode16, art.VerifInsertPosNode16}}
	if portable.Available {
		out = append(out, n16impl{"portable(node16_other.go)", portable.SearchNode16, portable.InsertPosNode16})
	}
	return out
}

func check16(res *ev.Result, unit string, im n16impl, keys *[16]byte, n int, b byte) bool {
	if g, w := im.search(keys, uint8(n), b), specSearch16(keys, n, b); g != w {
		c10fail(res, unit, fmt.Sprintf("searchNode16[%s](%x, n=%d, %#02x) differs from the scalar scan over occupied lanes", im.name, keys[:], n, b), fmt.Sprint(w), fmt.Sprint(g))
		return false
	}
	if g, w := im.insertPos(keys, uint8(n), b), specInsertPos16(keys, n, b); g != w {
		c10fail(res, unit, fmt.Sprintf("insertPosNode16[%s](%x, n=%d, %#02x) differs from the scalar scan over occupied lanes", im.name, keys[:], n, b), fmt.Sprint(w), fmt.Sprint(g))
		return false
	}
	return true
}

// node handle vs model ----------------------------------------------------

type nodeModel struct {
	h     *art.VerifNode
	m     map[byte]int
	next  int
	hist  []string
	res   *ev.Result
	unit  string
	dead  bool
	pokes int64
}

func newNodeModel(res *ev.Result, unit string) *nodeModel {
	return &nodeModel{h: art.NewVerifNode(), m: map[byte]int{}, res: res, unit: unit}
}

func (nm *nodeModel) fail(what, exp, obs string) {
	nm.dead = true
	h := nm.hist
	if len(h) > 400 {
		h = append([]string{fmt.Sprintf("... %d steps elided ...", len(h)-400)}, h[len(h)-400:]...)
	}
	nm.res.Violate(ev.Violation{Prop: "C10", Kind: "node-handle", Unit: nm.unit, What: what, Expected: exp, Observed: obs, History: h})
}

func (nm *nodeModel) guard(what string, f func()) (panicked bool) {
	defer func() {
		if p := recover(); p != nil {
			panicked = true
			nm.fail(what+" panicked", "returns normally", fmt.Sprint(p))
		}
	}()
	f()
	return
}

func (nm *nodeModel) add(b byte) {
	nm.next++
	id := nm.next
	nm.hist = append(nm.hist, fmt.Sprintf("add(%#02x)", b))
	if nm.guard("addChild", func() { nm.h.Add(b, id) }) {
		return
	}
	nm.m[b] = id
}

func (nm *nodeModel) remove(b byte) {
	nm.hist = append(nm.hist, fmt.Sprintf("remove(%#02x)", b))
	if nm.guard("deleteChild", func() { nm.h.Remove(b) }) {
		return
	}
	delete(nm.m, b)
}

func (nm *nodeModel) sortedBytes() []byte {
	bs := make([]byte, 0, len(nm.m))
	for b := range nm.m {
		bs = append(bs, b)
	}
	sort.Slice(bs, func(i, j int) bool { return bs[i] < bs[j] })
	return bs
}

// verify compares the node with the model: all 256 probes, enumeration
// order both ways, extremes; then again with hostile bytes poked into the
// unoccupied lanes of a 4- or 16-slot node (and restored afterwards).
func (nm *nodeModel) verify(poke bool) {
	if nm.dead {
		return
	}
	if nm.h.Kind() == 0 {
		// collapsed into its single remaining child (what a tree's reference does)
		if len(nm.m) != 1 {
			nm.fail("handle collapsed into a leaf while the model holds a different number of children", "1 child", fmt.Sprint(len(nm.m)))
		}
		return
	}
	nm.probeAll("")
	if nm.dead {
		return
	}
	want := nm.sortedBytes()
	var bs []byte
	var ids []int
	if nm.guard("forward enumeration", func() { bs, ids = nm.h.Enumerate() }) {
		return
	}
	nm.res.Evaluations++
	if !nm.sameEnum(bs, ids, want, false) {
		nm.fail("children do not enumerate in ascending unsigned byte order", fmt.Sprintf("%x", want), fmt.Sprintf("%x", bs))
		return
	}
	if nm.guard("backward enumeration", func() { bs, ids = nm.h.EnumerateBackward() }) {
		return
	}
	if !nm.sameEnum(bs, ids, want, true) {
		nm.fail("children do not enumerate backwards in descending unsigned byte order", fmt.Sprintf("reverse of %x", want), fmt.Sprintf("%x", bs))
		return
	}
	if len(want) > 0 {
		var b byte
		var id int
		var ok bool
		if nm.guard("minimum", func() { b, id, ok = nm.h.Min() }) {
			return
		}
		if !ok || b != want[0] || id != nm.m[want[0]] {
			nm.fail("leftmost descent does not reach the child under the smallest byte", fmt.Sprintf("%#02x", want[0]), fmt.Sprintf("%#02x ok=%v", b, ok))
			return
		}
		if nm.guard("maximum", func() { b, id, ok = nm.h.Max() }) {
			return
		}
		if !ok || b != want[len(want)-1] || id != nm.m[want[len(want)-1]] {
			nm.fail("rightmost descent does not reach the child under the largest byte", fmt.Sprintf("%#02x", want[len(want)-1]), fmt.Sprintf("%#02x ok=%v", b, ok))
			return
		}
	}
	if n := nm.h.Len(); n != len(nm.m)%256 {
		nm.fail("fan-out counter differs from the number of registered children (mod 256)", fmt.Sprint(len(nm.m)), fmt.Sprint(n))
		return
	}
	if poke && (nm.h.Kind() == 4 || nm.h.Kind() == 16) {
		orig := nm.h.Lanes()
		n := nm.h.Len()
		if n < len(orig) {
			for _, junk := range []string{"zero", "ff", "probe", "copy-of-occupied", "ascending"} {
				for i := n; i < len(orig); i++ {
					var v byte
					switch junk {
					case "zero":
						v = 0
					case "ff":
						v = 0xFF
					case "probe":
						v = byte(0x41 + i)
					case "copy-of-occupied":
						if n > 0 {
							v = orig[(i*7)%n]
						}
					default:
						v = byte(i * 16)
					}
					nm.h.PokeLane(i, v)
				}
				nm.pokes++
				nm.probeAll(" with unoccupied lanes set to " + junk)
				if nm.dead {
					break
				}
			}
			for i := n; i < len(orig); i++ { // restore what the code had left there
				nm.h.PokeLane(i, orig[i])
			}
		}
	}
}

func (nm *nodeModel) sameEnum(bs []byte, ids []int, want []byte, rev bool) bool {
	if len(bs) != len(want) {
		return false
	}
	for i := range bs {
		w := want[i]
		if rev {
			w = want[len(want)-1-i]
		}
		if bs[i] != w || ids[i] != nm.m[w] {
			return false
		}
	}
	return true
}

func (nm *nodeModel) probeAll(ctx string) {
	for p := 0; p < 256; p++ {
		b := byte(p)
		var id int
		var ok bool
		if nm.guard("findChild", func() { id, ok = nm.h.Find(b) }) {
			return
		}
		nm.res.Evaluations++
		wid, wok := nm.m[b]
		if ok != wok || (ok && id != wid) {
			nm.fail(fmt.Sprintf("probing byte %#02x%s on a class-%d node with %d children", b, ctx, nm.h.Kind(), len(nm.m)),
				fmt.Sprintf("(%d,%v)", wid, wok), fmt.Sprintf("(%d,%v)", id, ok))
			return
		}
	}
}

func (nm *nodeModel) stateKey() string {
	return fmt.Sprintf("%d|%d|%x|%x", nm.h.Kind(), nm.h.Len(), nm.h.Lanes(), nm.sortedBytes())
}

// closure: BFS over add/remove sequences on a bare node ---------------------

type nodeOp struct {
	rm bool
	b  byte
}

func c10Closure(res *ev.Result, unit string, universe []byte) {
	replay := func(ops []nodeOp) *nodeModel {
		nm := newNodeModel(res, unit)
		for _, op := range ops {
			if op.rm {
				nm.remove(op.b)
			} else {
				nm.add(op.b)
			}
			if nm.dead {
				return nm
			}
		}
		return nm
	}
	start := replay(nil)
	seen := map[string]bool{start.stateKey(): true}
	queue := [][]nodeOp{nil}
	states, transitions := 1, 0
	for len(queue) > 0 {
		cur := queue[0]
		queue = queue[1:]
		base := replay(cur)
		if base.dead {
			return
		}
		if base.h.Kind() == 0 {
			continue // collapsed: terminal
		}
		for _, b := range universe {
			_, present := base.m[b]
			op := nodeOp{rm: present, b: b}
			if present && len(base.m) < 2 {
				continue // a tree never removes the only child of a node
			}
			nm := replay(cur)
			if nm.dead {
				return
			}
			if op.rm {
				nm.remove(b)
			} else {
				nm.add(b)
			}
			transitions++
			nm.verify(true)
			if nm.dead {
				return
			}
			k := nm.stateKey()
			h := ev.NewHasher()
			h.Str(k)
			res.Distinct(h.Sum())
			if !seen[k] {
				seen[k] = true
				states++
				queue = append(queue, append(append([]nodeOp{}, cur...), op))
			}
		}
	}
	res.Count("closed_states", int64(states))
	res.Count("closed_transitions", int64(transitions))
	res.Exhaustive[unit] = true
	if res.WantSample() {
		res.Sample(map[string]any{"unit": unit, "byte_universe": fmt.Sprintf("%x", universe), "states": states, "transitions": transitions})
	}
}

// random / sweep sequences across all four classes --------------------------

func c10Walk(res *ev.Result, unit string, r *rng.R, style int) {
	nm := newNodeModel(res, unit)
	order := make([]byte, 256)
	for i := range order {
		order[i] = byte(i)
	}
	switch style % 4 {
	case 1:
		for i, j := 0, 255; i < j; i, j = i+1, j-1 {
			order[i], order[j] = order[j], order[i]
		}
	case 2: // interleaved low/high
		for i := range order {
			if i%2 == 0 {
				order[i] = byte(i / 2)
			} else {
				order[i] = byte(255 - i/2)
			}
		}
	case 3:
		rng.Shuffle(r, order)
	}
	targets := []int{5, 3, 17, 12, 18, 4, 49, 37, 50, 13, 256, 38, 36, 49, 48, 49, 255, 256, 37, 36, 13, 12, 11, 4, 3, 2}
	if style >= 4 {
		targets = []int{4, 5, 4, 5, 3, 16, 17, 16, 17, 13, 12, 13, 12, 48, 49, 48, 49, 38, 37, 38, 37, 60, 37, 12, 3, 2}
	}
	if style%3 == 2 {
		// stay inside the 48 class: fill it completely, punch holes, refill, churn
		targets = []int{17, 48, 40, 48, 47, 48, 30, 48, 13, 48, 47, 48, 20, 31, 30, 31, 30, 31, 30, 31, 30, 31, 30, 31, 30, 31, 30, 31, 30, 31, 30, 31, 30, 31, 30, 31, 30, 48, 12, 3, 2}
	}
	kinds := map[int]bool{}
	for _, tg := range targets {
		for len(nm.m) < tg && !nm.dead {
			// next absent byte in order (or a random absent one)
			var b byte
			found := false
			if r.Chance(1, 3) {
				for try := 0; try < 8 && !found; try++ {
					c := r.Byte()
					if _, ok := nm.m[c]; !ok {
						b, found = c, true
					}
				}
			}
			for i := 0; i < 256 && !found; i++ {
				if _, ok := nm.m[order[i]]; !ok {
					b, found = order[i], true
				}
			}
			nm.add(b)
			nm.verify(len(nm.m) <= 17)
			kinds[nm.h.Kind()] = true
		}
		for len(nm.m) > tg && len(nm.m) > 2 && !nm.dead {
			bs := nm.sortedBytes()
			var b byte
			switch r.Intn(4) {
			case 0:
				b = bs[0]
			case 1:
				b = bs[len(bs)-1]
			default:
				b = bs[r.Intn(len(bs))]
			}
			nm.remove(b)
			nm.verify(len(nm.m) <= 17)
			kinds[nm.h.Kind()] = true
		}
		if nm.dead {
			return
		}
	}
	for k := range kinds {
		res.Inc(fmt.Sprintf("walk_reached_class_%d", k))
	}
	res.Count("lookups_with_poked_lanes", nm.pokes)
	h := ev.NewHasher()
	h.Str(unit)
	res.Distinct(h.Sum())
	if res.WantSample() {
		res.Sample(map[string]any{"unit": unit, "steps": len(nm.hist), "first_steps": nm.hist[:min(8, len(nm.hist))]})
	}
}

func c10Units(t Tier, seed uint64) []engine.Unit {
	var us []engine.Unit
	thorough := t.F > 1
	// 1a. searchNode4: boundary-lane product x all probes
	us = append(us, engine.Unit{Name: "c10/searchNode4/boundary-product", Run: func(res *ev.Result) {
		unit := "c10/searchNode4/boundary-product"
		n := int64(0)
		for _, a := range c10Boundary {
			for _, b := range c10Boundary {
				for _, c := range c10Boundary {
					for _, d := range c10Boundary {
						w := uint32(a) | uint32(b)<<8 | uint32(c)<<16 | uint32(d)<<24
						for p := 0; p < 256; p++ {
							if !checkSearch4(res, unit, w, byte(p)) {
								return
							}
							n++
						}
					}
				}
			}
		}
		res.Evaluations += n
		res.Count("distinct_by_construction", n)
		res.Count("search4_cases", n)
		res.Sample(map[string]any{"unit": unit, "lane_values": fmt.Sprintf("%x", c10Boundary), "cases": n})
	}})
	// 1b. searchNode4: random words (quick) or the full 2^40 domain (thorough)
	if thorough {
		for top := 0; top < 256; top++ {
			top := top
			name := fmt.Sprintf("c10/searchNode4/exhaustive/%02x", top)
			us = append(us, engine.Unit{Name: name, Run: func(res *ev.Result) {
				hi := uint32(top) << 24
				for lo := uint32(0); lo < 1<<24; lo++ {
					w := hi | lo
					for p := 0; p < 256; p++ {
						if art.VerifSearchNode4(w, byte(p)) != firstLane4(w, byte(p)) {
							checkSearch4(res, name, w, byte(p))
							return
						}
					}
				}
				n := int64(1) << 32
				res.Evaluations += n
				res.Count("distinct_by_construction", n)
				res.Count("search4_cases", n)
				res.Exhaustive[name] = true
			}})
		}
	} else {
		for part := 0; part < 16; part++ {
			name := fmt.Sprintf("c10/searchNode4/random/%d", part)
			us = append(us, engine.Unit{Name: name, Run: func(res *ev.Result) {
				r := rng.New(seed, rng.HashString(name))
				const words = 40000
				for i := 0; i < words; i++ {
					w := uint32(r.U64())
					if i%4 == 0 { // make repeated lanes likely
						l := byte(r.U64())
						w = w&^0xFF00 | uint32(l)<<8
						w = w&^0xFF | uint32(l)
					}
					for p := 0; p < 256; p++ {
						if !checkSearch4(res, name, w, byte(p)) {
							return
						}
					}
					if i%64 == 0 {
						res.Distinct(uint64(w))
					}
				}
				res.Evaluations += words * 256
				res.Count("search4_cases", words*256)
			}})
		}
	}
	// 1c. insertPosNode4 + helpers
	laneSets := func(vals []byte, f func(w uint32, n int)) {
		f(0, 0)
		for i, a := range vals {
			f(uint32(a), 1)
			f(uint32(a)|uint32(a)<<8|uint32(a)<<16|uint32(a)<<24, 1) // unoccupied lanes = copies of the maximum
			for j := i + 1; j < len(vals); j++ {
				b := vals[j]
				f(uint32(a)|uint32(b)<<8, 2)
				f(uint32(a)|uint32(b)<<8|uint32(b)<<16|uint32(b)<<24, 2)
				for k := j + 1; k < len(vals); k++ {
					c := vals[k]
					f(uint32(a)|uint32(b)<<8|uint32(c)<<16, 3)
					f(uint32(a)|uint32(b)<<8|uint32(c)<<16|uint32(c)<<24, 3)
					for l := k + 1; l < len(vals); l++ {
						f(uint32(a)|uint32(b)<<8|uint32(c)<<16|uint32(vals[l])<<24, 4)
					}
				}
			}
		}
	}
	present := func(w uint32, n int, b byte) bool {
		for i := 0; i < n; i++ {
			if byte(w>>(8*uint(i))) == b {
				return true
			}
		}
		return false
	}
	parts := 16
	for part := 0; part < parts; part++ {
		part := part
		name := fmt.Sprintf("c10/insertPosNode4/%d", part)
		us = append(us, engine.Unit{Name: name, Run: func(res *ev.Result) {
			vals := c10Boundary
			if thorough {
				vals = make([]byte, 256)
				for i := range vals {
					vals[i] = byte(i)
				}
			} else {
				// boundary values plus a seed-dependent spread
				r := rng.New(seed, rng.HashString(name))
				set := map[byte]bool{}
				for _, v := range c10Boundary {
					set[v] = true
				}
				for len(set) < 40 {
					set[r.Byte()] = true
				}
				vals = vals[:0:0]
				for v := range set {
					vals = append(vals, v)
				}
			}
			sort.Slice(vals, func(i, j int) bool { return vals[i] < vals[j] })
			n := int64(0)
			idx := 0
			ok := true
			laneSets(vals, func(w uint32, cnt int) {
				idx++
				if !ok || idx%parts != part {
					return
				}
				for p := 0; p < 256; p++ {
					if present(w, cnt, byte(p)) {
						continue
					}
					if !checkInsertPos4(res, name, w, cnt, byte(p)) {
						ok = false
						return
					}
					n++
				}
			})
			res.Evaluations += n
			res.Count("distinct_by_construction", n)
			res.Count("insertpos4_cases", n)
			if thorough {
				res.Exhaustive[name] = ok
			}
		}})
	}
	us = append(us, engine.Unit{Name: "c10/node4-helpers", Run: func(res *ev.Result) {
		name := "c10/node4-helpers"
		r := rng.New(seed, rng.HashString(name))
		n := 200000 * t.F
		for i := 0; i < n; i++ {
			w := uint32(r.U64())
			if i < 10000 {
				w = uint32(c10Boundary[i%10]) | uint32(c10Boundary[(i/10)%10])<<8 | uint32(c10Boundary[(i/100)%10])<<16 | uint32(c10Boundary[(i/1000)%10])<<24
			}
			if !checkHelpers4(res, name, w, r) {
				return
			}
			if i%16 == 0 {
				res.Distinct(uint64(w) | 1<<40)
			}
		}
		res.Evaluations += int64(n) * 4
		res.Count("helper4_words", int64(n))
	}})
	// 2. node16 routines: all fill counts x lane positions x lane values x probes over backgrounds
	backgrounds := func(r *rng.R) [][16]byte {
		var bg [][16]byte
		mk := func(f func(i int) byte) {
			var a [16]byte
			for i := range a {
				a[i] = f(i)
			}
			bg = append(bg, a)
		}
		mk(func(int) byte { return 0x00 })
		mk(func(int) byte { return 0xFF })
		mk(func(int) byte { return 0x7F })
		mk(func(int) byte { return 0x80 })
		mk(func(i int) byte { return byte(i * 16) })
		mk(func(i int) byte { return byte(0x78 + i) }) // ascending across 0x7F/0x80
		mk(func(i int) byte { return byte(255 - i) })
		mk(func(int) byte { return r.Byte() })
		return bg
	}
	for bgi := 0; bgi < 8; bgi++ {
		for half := 0; half < 2; half++ {
			bgi, half := bgi, half
			name := fmt.Sprintf("c10/node16/sweep/bg%d-%d", bgi, half)
			us = append(us, engine.Unit{Name: name, Run: func(res *ev.Result) {
				r := rng.New(seed, 0x16, uint64(bgi))
				bg := backgrounds(r)[bgi]
				n := int64(0)
				for _, im := range n16impls() {
					for cnt := 0; cnt <= 16; cnt++ {
						for pos := half * 8; pos < half*8+8; pos++ {
							for v := 0; v < 256; v++ {
								keys := bg
								keys[pos] = byte(v)
								for p := 0; p < 256; p++ {
									if !check16(res, name, im, &keys, cnt, byte(p)) {
										return
									}
									n += 2
								}
							}
						}
					}
					res.Inc("node16_impl_" + im.name)
				}
				res.Evaluations += n
				res.Count("distinct_by_construction", n)
				res.Count("node16_cases", n)
				res.Exhaustive[name] = true
				if res.WantSample() {
					res.Sample(map[string]any{"unit": name, "background": fmt.Sprintf("%x", bg[:]), "cases": n})
				}
			}})
		}
	}
	for part := 0; part < 16; part++ {
		name := fmt.Sprintf("c10/node16/random/%d", part)
		us = append(us, engine.Unit{Name: name, Run: func(res *ev.Result) {
			r := rng.New(seed, rng.HashString(name))
			arrays := 3000 * t.F
			n := int64(0)
			for i := 0; i < arrays; i++ {
				var keys [16]byte
				switch i % 3 {
				case 0:
					copy(keys[:], r.Bytes(16))
				case 1: // sorted occupied part, junk after it
					copy(keys[:], r.Bytes(16))
					cnt := r.Intn(17)
					s := keys[:cnt]
					sort.Slice(s, func(a, b int) bool { return s[a] < s[b] })
				default: // few distinct values
					for j := range keys {
						keys[j] = c10Boundary[r.Intn(len(c10Boundary))]
					}
				}
				for _, im := range n16impls() {
					for cnt := 0; cnt <= 16; cnt++ {
						for p := 0; p < 256; p++ {
							if !check16(res, name, im, &keys, cnt, byte(p)) {
								return
							}
							n += 2
						}
					}
				}
				if i%8 == 0 {
					h := ev.NewHasher()
					h.Bytes(keys[:])
					res.Distinct(h.Sum())
				}
			}
			res.Evaluations += n
			res.Count("node16_cases", n)
		}})
	}
	// 3. bare-node closure over boundary bytes (crosses 4->16 and 16->4)
	for i, uni := range [][]byte{{0x00, 0x01, 0x7F, 0x80, 0xFF, 0x41}, {0x00, 0xFF, 0x80, 0x7F, 0xFE, 0x02}} {
		uni := uni
		name := fmt.Sprintf("c10/closure/%d", i)
		us = append(us, engine.Unit{Name: name, Run: func(res *ev.Result) { c10Closure(res, name, uni) }})
	}
	// 4. walks across 48 and 256
	for i := 0; i < 24*t.F; i++ {
		i := i
		name := fmt.Sprintf("c10/walk/%d", i)
		us = append(us, engine.Unit{Name: name, Run: func(res *ev.Result) {
			c10Walk(res, name, rng.New(seed, rng.HashString(name)), i%8)
			res.Inc("units_walk")
		}})
	}
	return us
}
