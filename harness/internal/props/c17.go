package props

import (
	"fmt"
	"iter"
	"runtime"
	"runtime/debug"

	art "github.com/Clement-Jean/go-art"

	"verif/internal/engine"
	"verif/internal/ev"
	"verif/internal/kinds"
	"verif/internal/rng"
)

// C17: live heap after forced collections, before and after N operations on a
// tree of bounded size. One process per kind (the orchestrator runs each unit
// in its own process); thresholds are in bytes and operations, never time.

func liveHeap() uint64 {
	runtime.GC()
	runtime.GC() // also empties sync.Pool's victim cache
	var ms runtime.MemStats
	runtime.ReadMemStats(&ms)
	return ms.HeapAlloc
}

// c17MaxKeyBytes: keys longer than this are left out of the heap measurements (the byte
// thresholds below are absolute; a collation tree keeps one scratch buffer as large as the
// largest key it was ever given, which is observed and not judged).
const c17MaxKeyBytes = 300

const (
	c17Slack      = 256 << 10 // bytes
	c17PerOpMilli = 500       // 0.5 B per operation
	c17EmptySlack = 64 << 10
)

func c17KeyLen[K any](k *kinds.Kind[K], c K, id string) int {
	if k.Len != nil {
		return k.Len(c)
	}
	return len(id)
}

type c17phase struct {
	name string
	n    int
	run  func(i int)
}

func c17Kind[K any](res *ev.Result, unit string, k *kinds.Kind[K], seed uint64, N int) {
	debug.SetGCPercent(100)
	r := rng.New(seed, rng.HashString(unit))
	const S = 1000
	// all harness data is allocated before the first reading and reused
	var keys []K
	seen := map[string]bool{}
	scratchModel := kindsModel(k)
	for tries := 0; len(keys) < S && tries < 200; tries++ {
		for _, c := range k.Pool(r, 400) {
			if len(keys) >= S {
				break
			}
			id := k.ID(c)
			if seen[id] || c17KeyLen(k, c, id) > c17MaxKeyBytes {
				continue
			}
			if ok, _ := k.Storable(scratchModel, c); !ok {
				continue
			}
			seen[id] = true
			scratchModel.Put(c, 0)
			keys = append(keys, c)
		}
	}
	S2 := len(keys)
	absent := make([]K, 0, 256)
	for i := 0; i < 256; i++ {
		c := k.Near(r, keys[r.Intn(S2)])
		if !seen[k.ID(c)] {
			absent = append(absent, c)
		}
	}
	if len(absent) == 0 {
		absent = append(absent, keys[0])
	}
	const winSize = 64
	var fresh []K
	for tries := 0; len(fresh) < 4096 && tries < 40; tries++ {
		for _, c := range k.Pool(r, 600) {
			id := k.ID(c)
			if seen[id] || c17KeyLen(k, c, id) > c17MaxKeyBytes {
				continue
			}
			if ok, _ := k.Storable(scratchModel, c); !ok {
				continue
			}
			seen[id] = true
			scratchModel.Put(c, 0)
			fresh = append(fresh, c)
		}
	}
	var prefixes []K
	if k.HasPrefix {
		for i := 0; i < 64; i++ {
			for _, p := range k.PrefixQueries(r, keys[r.Intn(S2)]) {
				if k.PrefixArgOK(p) {
					prefixes = append(prefixes, p)
				}
			}
		}
	}
	var fams [][]K
	total := 0
	if k.Fan != nil {
		for f := 0; f < 40; f++ {
			fam := k.Fan(r)
			kept := fam[:0:0]
			for _, c := range fam {
				if seen[k.ID(c)] {
					continue
				}
				if okk, _ := k.Storable(scratchModel, c); !okk {
					continue
				}
				seen[k.ID(c)] = true
				scratchModel.Put(c, 0)
				kept = append(kept, k.Clone(c))
			}
			fams = append(fams, kept)
			total += len(kept)
		}
	}
	emptyBase := liveHeap()
	// every query method once on an empty tree of this kind (a path of its own in the
	// library: bookkeeping that is only unbalanced there shows up in the phases below)
	{
		e := k.New()
		var z K
		e.Search(keys[0])
		e.Delete(keys[0])
		e.Minimum()
		e.Maximum()
		e.Size()
		for range e.All() {
		}
		for range e.Backward() {
		}
		for range e.TopK(3) {
		}
		for range e.BottomK(3) {
		}
		if k.HasRange || k.Family == "collation" {
			for range e.Range(keys[0], keys[1]) {
			}
		}
		if k.HasPrefix {
			for range e.Prefix(keys[0]) {
			}
			for range e.Prefix(z) {
			}
		}
	}
	t := k.New()
	afterNew := liveHeap()
	for i, key := range keys {
		t.Insert(k.Clone(key), uint64(i))
	}
	drainK := func(seq iter.Seq2[K, uint64], stop int) {
		i := 0
		for range seq {
			i++
			if stop > 0 && i >= stop {
				break
			}
		}
	}
	goroutines0 := runtime.NumGoroutine()
	nq := max(N/4, 1000)
	ns := max(N/40, 200) // full drains visit every key: fewer of them
	phases := []c17phase{
		{"search_present", nq, func(i int) { t.Search(keys[i%S2]) }},
		{"search_absent", nq, func(i int) { t.Search(absent[i%len(absent)]) }},
		{"delete_absent", nq, func(i int) { t.Delete(absent[i%len(absent)]) }},
		{"minimum_maximum_size", nq, func(i int) { t.Minimum(); t.Maximum(); t.Size() }},
		{"all_full", ns, func(i int) { drainK(t.All(), 0) }},
		{"backward_full", ns, func(i int) { drainK(t.Backward(), 0) }},
		{"all_abandoned", nq, func(i int) { drainK(t.All(), 1+i%7) }},
		{"backward_abandoned", nq, func(i int) { drainK(t.Backward(), 1+i%7) }},
		{"topk_full", nq, func(i int) { drainK(t.TopK(uint(1+i%9)), 0) }},
		{"bottomk_full", nq, func(i int) { drainK(t.BottomK(uint(1+i%9)), 0) }},
		{"topk_abandoned", nq, func(i int) { drainK(t.TopK(uint(5+i%9)), 1+i%3) }},
		{"bottomk_abandoned", nq, func(i int) { drainK(t.BottomK(uint(5+i%9)), 1+i%3) }},
		{"overwrite", N, func(i int) { t.Insert(keys[i%S2], uint64(i)) }},
		{"delete_reinsert_same_keys", N / 2, func(i int) {
			key := keys[(i*7)%S2]
			t.Delete(key)
			t.Insert(k.Clone(key), uint64(i))
		}},
	}
	if k.HasRange || k.Family == "collation" {
		phases = append(phases,
			c17phase{"range_narrow", nq, func(i int) { a := keys[i%S2]; drainK(t.Range(a, a), 0) }},
			c17phase{"range_abandoned", nq, func(i int) { drainK(t.Range(keys[i%S2], keys[(i*13+5)%S2]), 2) }},
		)
	}
	if len(prefixes) > 0 {
		phases = append(phases,
			c17phase{"prefix", nq, func(i int) { drainK(t.Prefix(prefixes[i%len(prefixes)]), 3) }},
		)
	}
	// sliding window over a table of fresh keys (drawn before the baseline, mutually
	// in scope with the stored ones): constant size, ever-changing content
	phases = append(phases, c17phase{"sliding_window_fresh_keys", N / 2, func(i int) {
		if len(fresh) < 2*winSize {
			return
		}
		if i >= winSize {
			t.Delete(fresh[(i-winSize)%len(fresh)])
		}
		t.Insert(k.Clone(fresh[i%len(fresh)]), uint64(i))
	}})
	ok := true
	for _, ph := range phases {
		before := liveHeap()
		for i := 0; i < ph.n; i++ {
			ph.run(i)
		}
		after := liveHeap()
		delta := int64(after) - int64(before)
		limit := int64(c17Slack) + int64(ph.n)*c17PerOpMilli/1000
		res.Evaluations += int64(ph.n)
		res.Count("ops_"+ph.name, int64(ph.n))
		res.Max("max_heap_delta_bytes_"+ph.name, delta)
		if res.WantSample() && ph.name == "search_present" {
			res.Sample(map[string]any{"unit": unit, "kind": k.Name, "stored_keys": S2, "phase": ph.name, "ops": ph.n, "heap_before": before, "heap_after": after, "limit_bytes": limit})
		}
		if delta > limit {
			ok = false
			res.Violate(ev.Violation{Prop: "C17", Kind: k.Name, Unit: unit,
				What:     fmt.Sprintf("live heap grew with the number of operations in phase %q on a tree of bounded size", ph.name),
				Expected: fmt.Sprintf("growth <= %d bytes after %d operations", limit, ph.n),
				Observed: fmt.Sprintf("%d bytes (%.1f B/op): %d -> %d", delta, float64(delta)/float64(ph.n), before, after)})
			break
		}
	}
	if ok && len(fresh) >= 8*64 {
		// survivor pattern: rounds of "insert 64 new keys, delete 63 of them". What stays alive
		// must be what the survivors need, not what their dead neighbours needed (leaves carved
		// out of shared blocks, per-round caches): the limit is a function of the surviving content
		rounds := min(len(fresh)/64, 64)
		// the sliding window may have left some of these keys stored: start from none of them
		for _, key := range fresh {
			t.Delete(key)
		}
		before := liveHeap()
		content := int64(0)
		for rd := 0; rd < rounds; rd++ {
			for j := 0; j < 64; j++ {
				t.Insert(k.Clone(fresh[rd*64+j]), uint64(j))
			}
			keep := (rd * 7) % 64
			for j := 0; j < 64; j++ {
				if j != keep {
					t.Delete(fresh[rd*64+j])
				}
			}
			content += int64(c17KeyLen(k, fresh[rd*64+keep], k.ID(fresh[rd*64+keep])))
		}
		after := liveHeap()
		for _, key := range fresh {
			t.Delete(key)
		}
		delta := int64(after) - int64(before)
		limit := int64(c17EmptySlack) + 8*content + 128*int64(rounds)
		res.Evaluations += int64(rounds * 127)
		res.Count("ops_survivor_pattern", int64(rounds*127))
		res.Max("max_heap_delta_bytes_survivor_pattern", delta)
		if delta > limit {
			ok = false
			res.Violate(ev.Violation{Prop: "C17", Kind: k.Name, Unit: unit,
				What:     fmt.Sprintf("memory kept after %d rounds of (insert 64 keys, delete 63 of them) depends on the deleted neighbours, not on the %d surviving keys", rounds, rounds),
				Expected: fmt.Sprintf("<= %d bytes (64 KiB + 8 x %d bytes of surviving keys + 128 B per survivor)", limit, content),
				Observed: fmt.Sprintf("%d bytes: %d -> %d", delta, before, after)})
		}
	}
	if g := runtime.NumGoroutine(); ok && g > goroutines0+2 {
		ok = false
		res.Violate(ev.Violation{Prop: "C17", Kind: k.Name, Unit: unit,
			What: "goroutines accumulate with the number of queries", Expected: fmt.Sprint(goroutines0), Observed: fmt.Sprint(g)})
	}
	if ok {
		// where the key bytes came from must not matter: keys cut out of much larger strings,
		// or byte slices with a huge spare capacity, must not pin or copy the surroundings
		mk := func(i int, doc []byte) (K, bool) {
			tag := fmt.Sprintf("zq%010d", i)
			copy(doc[4096:], tag)
			var z K
			switch any(z).(type) {
			case string:
				big := string(doc) // a fresh 1 MiB string per key
				kk, _ := any(big[4096 : 4096+len(tag)]).(K)
				return kk, true
			case []byte:
				own := append([]byte{}, doc...)             // a fresh 1 MiB array per key
				kk, _ := any(own[4096 : 4096+len(tag)]).(K) // len 12, cap ~1 MiB
				return kk, true
			}
			return z, false
		}
		doc := make([]byte, 1<<20)
		for i := range doc {
			doc[i] = 'd'
		}
		if _, applies := mk(0, doc); applies && k.Family != "compound" {
			before := liveHeap()
			const nk = 40
			for i := 0; i < nk; i++ {
				key, _ := mk(i, doc)
				t.Insert(key, uint64(i))
			}
			// collation trees keep a reference to the *last* key argument of any call (one
			// object, whatever the history): look up a small stand-alone key so that this
			// bounded retention does not point into one of the large buffers
			t.Search(keys[0])
			after := liveHeap()
			for i := 0; i < nk; i++ {
				key, _ := mk(i, doc)
				t.Delete(key)
			}
			res.Evaluations += nk
			res.Count("ops_keys_from_large_buffers", nk)
			res.Max("max_heap_delta_bytes_keys_from_large_buffers", int64(after)-int64(before))
			if d := int64(after) - int64(before); d > int64(c17Slack) {
				ok = false
				res.Violate(ev.Violation{Prop: "C17", Kind: k.Name, Unit: unit,
					What:     "memory held for stored keys depends on where their bytes came from (12-byte keys taken from 1 MiB strings / slices with 1 MiB spare capacity), not on the content",
					Expected: fmt.Sprintf("<= %d bytes for %d keys of 12 bytes", c17Slack, nk),
					Observed: fmt.Sprintf("%d bytes", d)})
			}
		}
	}
	if ok && k.Fan != nil {
		// dense growth then removal: many 256-way nodes are built and retired; what stays
		// alive afterwards must not depend on that peak
		before := liveHeap()
		for _, fam := range fams {
			for _, c := range fam {
				t.Insert(k.Clone(c), 1)
			}
		}
		peak := liveHeap()
		for _, fam := range fams {
			for _, c := range fam {
				t.Delete(c)
			}
		}
		after := liveHeap()
		runtime.KeepAlive(fams)
		res.Evaluations += int64(2 * total)
		res.Count("ops_dense_grow_then_remove", int64(2*total))
		res.Max("max_heap_delta_bytes_dense_grow_then_remove", int64(after)-int64(before))
		res.Max("max_heap_peak_bytes_dense_grow", int64(peak)-int64(before))
		if d := int64(after) - int64(before); d > int64(c17EmptySlack) {
			ok = false
			res.Violate(ev.Violation{Prop: "C17", Kind: k.Name, Unit: unit,
				What:     "memory retained after a dense block of keys was inserted and removed again depends on the peak, not on the content",
				Expected: fmt.Sprintf("<= %d bytes above the reading before the block (%d keys inserted and deleted, peak +%d bytes)", c17EmptySlack, total, int64(peak)-int64(before)),
				Observed: fmt.Sprintf("%d bytes", d)})
		}
	}
	if ok {
		// delete everything: the tree retains no more than a small constant
		for _, key := range fresh {
			t.Delete(key)
		}
		for _, key := range keys {
			t.Delete(key)
		}
		if t.Size() != 0 {
			res.Count("observe_only_size_after_delete_all", int64(t.Size()))
		}
		// what the emptied tree keeps alive = heap with the tree reachable minus heap after
		// the tree (and every closure that captured it) has been released; both readings are
		// taken in the same harness state, so harness-side memory cancels out
		end := liveHeap()
		runtime.KeepAlive(t)
		phases = nil
		t = nil
		endNoTree := liveHeap()
		extra := int64(end) - int64(endNoTree)
		res.Max("max_bytes_kept_alive_by_emptied_tree", extra)
		// and against the reading taken on the newly created tree (every harness table was
		// built before that reading and nothing was added since): memory the operations left
		// behind anywhere, e.g. in package-level lists
		if sinceNew := int64(end) - int64(afterNew); sinceNew > extra {
			extra = sinceNew
		}
		res.Max("max_heap_after_delete_all_minus_new_tree_bytes", int64(end)-int64(afterNew))
		if extra > int64(c17EmptySlack) {
			res.Violate(ev.Violation{Prop: "C17", Kind: k.Name, Unit: unit,
				What:     "after all keys were deleted the tree retains more than a small constant",
				Expected: fmt.Sprintf("<= %d bytes kept alive by the emptied tree", c17EmptySlack),
				Observed: fmt.Sprintf("%d bytes (heap with the emptied tree reachable %d, after releasing it %d; new tree reading %d, process baseline %d)", extra, end, endNoTree, afterNew, emptyBase)})
		}
		res.Inc("delete_all_checks")
	}
	runtime.KeepAlive(t)
	runtime.KeepAlive(absent)
	runtime.KeepAlive(prefixes)
	res.Inc("units_kind")
	h := ev.NewHasher()
	h.Str(unit)
	res.Distinct(h.Sum())
}

func c17Add[K any](us *[]engine.Unit, mk func() *kinds.Kind[K], seed uint64, N int) {
	name := "c17/" + mk().Name
	*us = append(*us, engine.Unit{Name: name, Run: func(res *ev.Result) { c17Kind(res, name, mk(), seed, N) }})
}

func c17Units(t Tier, seed uint64) []engine.Unit {
	N := 200000
	if t.F > 1 {
		N = 4000000
	}
	var us []engine.Unit
	c17Add(&us, kinds.AlphaString, seed, N)
	c17Add(&us, kinds.AlphaBytes, seed, N)
	c17Add(&us, kinds.Uint16, seed, N)
	c17Add(&us, kinds.Uint64, seed, N)
	c17Add(&us, kinds.Int32, seed, N)
	c17Add(&us, kinds.Int64, seed, N)
	c17Add(&us, kinds.Float32, seed, N)
	c17Add(&us, kinds.Float64, seed, N)
	c17Add(&us, func() *kinds.Kind[string] { return kinds.CollString(kinds.CollationConfig("und")) }, seed, N)
	c17Add(&us, func() *kinds.Kind[[]byte] { return kinds.CollBytes(kinds.CollationConfig("de+numeric")) }, seed, N)
	c17Add(&us, kinds.CollRunes, seed, N)
	c17Add(&us, func() *kinds.Kind[string] { return kinds.CollString(kinds.CollationConfig("und+ignorecase")) }, seed, N)
	c17Add(&us, func() *kinds.Kind[kinds.Tuple] {
		return kinds.CompoundKind(kinds.Schema{Fields: []kinds.FieldType{kinds.FU32, kinds.FI16}, Str: true}, true)
	}, seed, N)
	c17Add(&us, func() *kinds.Kind[kinds.Tuple] {
		return kinds.CompoundKind(kinds.Schema{Fields: []kinds.FieldType{kinds.FF64, kinds.FU8, kinds.FI64}}, false)
	}, seed, N)
	if t.F > 1 {
		c17Add(&us, kinds.Uint8, seed, N)
		c17Add(&us, kinds.Uint32, seed, N)
		c17Add(&us, kinds.Uint, seed, N)
		c17Add(&us, kinds.Int8, seed, N)
		c17Add(&us, kinds.Int16, seed, N)
		c17Add(&us, kinds.Int, seed, N)
	}
	_ = art.VerifPoolAudit
	return us
}

func kindsModel[K any](k *kinds.Kind[K]) *refMap[K] { return newRefMap(k) }
