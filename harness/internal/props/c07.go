package props

import (
	"bytes"
	"fmt"
	"math"

	art "github.com/Clement-Jean/go-art"

	"verif/internal/engine"
	"verif/internal/ev"
	"verif/internal/kinds"
	"verif/internal/rng"
)

// numCodec adapts one exported numeric codec of the library; bit patterns
// are carried as uint64 (value for unsigned, two's complement truncated for
// signed, IEEE bits for floats).
type numCodec struct {
	name  string
	width int
	kind  byte // 'u', 'i', 'f'
	enc   func(bits uint64) ([]byte, []byte)
	dec   func(b []byte) uint64 // returns bits of the restored value
}

func mask(width int) uint64 {
	if width == 8 {
		return ^uint64(0)
	}
	return uint64(1)<<(uint(width)*8) - 1
}

func sext(bits uint64, width int) int64 {
	sh := uint(64 - width*8)
	return int64(bits<<sh) >> sh
}

func (c *numCodec) isNaN(bits uint64) bool {
	if c.kind != 'f' {
		return false
	}
	if c.width == 4 {
		f := math.Float32frombits(uint32(bits))
		return f != f
	}
	f := math.Float64frombits(bits)
	return f != f
}

// cmp is the oracle order on bit patterns, from Go's native comparisons.
func (c *numCodec) cmp(a, b uint64) int {
	switch c.kind {
	case 'u':
		if a < b {
			return -1
		} else if a > b {
			return 1
		}
		return 0
	case 'i':
		x, y := sext(a, c.width), sext(b, c.width)
		if x < y {
			return -1
		} else if x > y {
			return 1
		}
		return 0
	}
	if c.width == 4 {
		return kinds.FloatCmp(math.Float32frombits(uint32(a)), math.Float32frombits(uint32(b)))
	}
	return kinds.FloatCmp(math.Float64frombits(a), math.Float64frombits(b))
}

func (c *numCodec) show(bits uint64) string {
	switch c.kind {
	case 'u':
		return fmt.Sprintf("%d", bits)
	case 'i':
		return fmt.Sprintf("%d", sext(bits, c.width))
	}
	if c.width == 4 {
		return fmt.Sprintf("%v(bits %#08x)", math.Float32frombits(uint32(bits)), uint32(bits))
	}
	return fmt.Sprintf("%v(bits %#016x)", math.Float64frombits(bits), bits)
}

func numCodecs() []*numCodec {
	return []*numCodec{
		{"uint8", 1, 'u', func(u uint64) ([]byte, []byte) { return art.UnsignedBinaryKey[uint8]{}.Transform(uint8(u)) }, func(b []byte) uint64 { return uint64(art.UnsignedBinaryKey[uint8]{}.Restore(b)) }},
		{"uint16", 2, 'u', func(u uint64) ([]byte, []byte) { return art.UnsignedBinaryKey[uint16]{}.Transform(uint16(u)) }, func(b []byte) uint64 { return uint64(art.UnsignedBinaryKey[uint16]{}.Restore(b)) }},
		{"uint32", 4, 'u', func(u uint64) ([]byte, []byte) { return art.UnsignedBinaryKey[uint32]{}.Transform(uint32(u)) }, func(b []byte) uint64 { return uint64(art.UnsignedBinaryKey[uint32]{}.Restore(b)) }},
		{"uint64", 8, 'u', func(u uint64) ([]byte, []byte) { return art.UnsignedBinaryKey[uint64]{}.Transform(u) }, func(b []byte) uint64 { return art.UnsignedBinaryKey[uint64]{}.Restore(b) }},
		{"uint", 8, 'u', func(u uint64) ([]byte, []byte) { return art.UnsignedBinaryKey[uint]{}.Transform(uint(u)) }, func(b []byte) uint64 { return uint64(art.UnsignedBinaryKey[uint]{}.Restore(b)) }},
		{"int8", 1, 'i', func(u uint64) ([]byte, []byte) { return art.SignedBinaryKey[int8]{}.Transform(int8(u)) }, func(b []byte) uint64 { return uint64(uint8(art.SignedBinaryKey[int8]{}.Restore(b))) }},
		{"int16", 2, 'i', func(u uint64) ([]byte, []byte) { return art.SignedBinaryKey[int16]{}.Transform(int16(u)) }, func(b []byte) uint64 { return uint64(uint16(art.SignedBinaryKey[int16]{}.Restore(b))) }},
		{"int32", 4, 'i', func(u uint64) ([]byte, []byte) { return art.SignedBinaryKey[int32]{}.Transform(int32(u)) }, func(b []byte) uint64 { return uint64(uint32(art.SignedBinaryKey[int32]{}.Restore(b))) }},
		{"int64", 8, 'i', func(u uint64) ([]byte, []byte) { return art.SignedBinaryKey[int64]{}.Transform(int64(u)) }, func(b []byte) uint64 { return uint64(art.SignedBinaryKey[int64]{}.Restore(b)) }},
		{"int", 8, 'i', func(u uint64) ([]byte, []byte) { return art.SignedBinaryKey[int]{}.Transform(int(u)) }, func(b []byte) uint64 { return uint64(art.SignedBinaryKey[int]{}.Restore(b)) }},
		{"float32", 4, 'f', func(u uint64) ([]byte, []byte) {
			return art.FloatBinaryKey[float32]{}.Transform(math.Float32frombits(uint32(u)))
		}, func(b []byte) uint64 { return uint64(math.Float32bits(art.FloatBinaryKey[float32]{}.Restore(b))) }},
		{"float64", 8, 'f', func(u uint64) ([]byte, []byte) {
			return art.FloatBinaryKey[float64]{}.Transform(math.Float64frombits(u))
		}, func(b []byte) uint64 { return math.Float64bits(art.FloatBinaryKey[float64]{}.Restore(b)) }},
	}
}

type c07 struct {
	c      *numCodec
	res    *ev.Result
	unit   string
	dead   bool
	width0 int
}

func (x *c07) fail(what, exp, obs string) {
	x.dead = true
	x.res.Violate(ev.Violation{Prop: "C07", Kind: x.c.name, Unit: x.unit, What: what, Expected: exp, Observed: obs})
}

func guardEnc(x *c07, bits uint64) (a []byte, ok bool) {
	defer func() {
		if p := recover(); p != nil {
			x.fail("codec panicked on "+x.c.show(bits), "returns normally", fmt.Sprint(p))
			ok = false
		}
	}()
	a, b := x.c.enc(bits)
	// fixed length: every encoding of the type is as long as the encoding of zero
	// (the property does not say which length; b is the form the trees index)
	if x.width0 == 0 {
		_, z := x.c.enc(0)
		x.width0 = len(z)
		if x.width0 != x.c.width {
			x.res.Inc("observe_only_encoding_length_differs_from_type_size")
		}
	}
	if len(b) != x.width0 {
		x.fail("encoding of "+x.c.show(bits)+" does not have the type's fixed length", fmt.Sprint(x.width0), fmt.Sprintf("%d bytes", len(b)))
		return nil, false
	}
	if !bytes.Equal(a, b) {
		x.res.Inc("observe_only_transform_returned_two_different_slices")
	}
	back := x.c.dec(b)
	if x.c.isNaN(bits) {
		if !x.c.isNaN(back) {
			x.fail("decoding the encoding of a NaN does not give a NaN", "NaN", x.c.show(back))
			return nil, false
		}
	} else if back != bits&mask(x.c.width) {
		x.fail("round trip is not bit-exact for "+x.c.show(bits), x.c.show(bits), x.c.show(back)+fmt.Sprintf(" via %x", b))
		return nil, false
	}
	return b, true
}

// value checks one value (width, two slices equal, exact round trip).
func (x *c07) value(bits uint64) ([]byte, bool) {
	x.res.Evaluations++
	return guardEnc(x, bits)
}

// pair checks the order isomorphism on one ordered pair.
func (x *c07) pair(a, b uint64, ea, eb []byte) bool {
	x.res.Evaluations++
	want := x.c.cmp(a, b)
	got := bytes.Compare(ea, eb)
	if sgn(want) != sgn(got) {
		x.fail(fmt.Sprintf("order not preserved: %s vs %s", x.c.show(a), x.c.show(b)),
			fmt.Sprintf("oracle cmp=%d", want), fmt.Sprintf("bytes.Compare(%x,%x)=%d", ea, eb, got))
		return false
	}
	return true
}

func sgn(x int) int {
	switch {
	case x < 0:
		return -1
	case x > 0:
		return 1
	}
	return 0
}

// orderIndex enumerates a <=32-bit domain in oracle order: index -> bits.
// For floats all NaN patterns come first (they are one key), then -Inf ...
// -0, +0 ... +Inf.
func (c *numCodec) orderIndex(i uint64) uint64 {
	w := uint(c.width) * 8
	switch c.kind {
	case 'u':
		return i
	case 'i':
		return (i + uint64(1)<<(w-1)) & mask(c.width) // MinInt first
	}
	// float32 only (width 4): NaNs: 0x7F800001..0x7FFFFFFF (2^23-1) and 0xFF800001..0xFFFFFFFF (2^23-1)
	const nn = 1<<23 - 1
	switch {
	case i < nn:
		return 0x7F800001 + i
	case i < 2*nn:
		return 0xFF800001 + (i - nn)
	}
	j := i - 2*nn // 0 .. : negatives from -Inf (0xFF800000) down to -0 (0x80000000)
	const negs = 0xFF800000 - 0x80000000 + 1
	if j < negs {
		return 0xFF800000 - j
	}
	return j - negs // +0 .. +Inf (0x7F800000)
}

// chain checks, over index range [lo,hi) of the oracle order (plus the link
// to element hi when it exists), that encodings are strictly increasing
// (NaNs: all equal); a strictly increasing chain over the whole domain
// implies injectivity and the order isomorphism for all pairs.
func (x *c07) chain(lo, hi, total, stride uint64) {
	var prev []byte
	var prevBits uint64
	have := false
	n := int64(0)
	for i := lo; i <= hi && i < total && !x.dead; i += stride {
		bits := x.c.orderIndex(i)
		e, ok := x.value(bits)
		if !ok {
			return
		}
		if have && !x.pair(prevBits, bits, prev, e) {
			return
		}
		prev, prevBits, have = e, bits, true
		n++
	}
	x.res.Count("distinct_by_construction", n)
	x.res.Count("chain_values_"+x.c.name, n)
}

func boundaryBits(c *numCodec) []uint64 {
	m := mask(c.width)
	set := map[uint64]bool{}
	add := func(u uint64) { set[u&m] = true }
	w := uint(c.width) * 8
	for s := uint(0); s < w; s++ {
		p := uint64(1) << s
		for _, d := range []uint64{0, 1, ^uint64(0), 2, ^uint64(1)} {
			add(p + d)
			add(^p + d)
			add(p<<1 - 1 + d)
		}
	}
	for b := uint(0); b < w; b += 8 {
		for v := uint64(0); v < 4; v++ {
			add(uint64(0xFF)<<b + v)
			add(uint64(0x80)<<b + v - 2)
			add(uint64(0x7F)<<b + v)
			add(uint64(0x100)<<b - 2 + v)
		}
	}
	for d := uint64(0); d < 8; d++ {
		add(d)
		add(m - d)
		add(m>>1 - 3 + d)
	}
	if c.kind == 'f' {
		if c.width == 4 {
			for e := uint64(0); e <= 0xFF; e++ {
				for _, sgnb := range []uint64{0, 1 << 31} {
					add(sgnb | e<<23)
					add(sgnb | e<<23 | 0x7FFFFF)
					add(sgnb | e<<23 | 1)
					add(sgnb | e<<23 | 0x400000)
				}
			}
		} else {
			for e := uint64(0); e <= 0x7FF; e++ {
				for _, sgnb := range []uint64{0, 1 << 63} {
					add(sgnb | e<<52)
					add(sgnb | e<<52 | 0xFFFFFFFFFFFFF)
					add(sgnb | e<<52 | 1)
					if e%16 == 0 || e > 0x7F0 || e < 16 {
						add(sgnb | e<<52 | 0x8000000000000)
					}
				}
			}
		}
	}
	out := make([]uint64, 0, len(set))
	for u := range set {
		out = append(out, u)
	}
	// deterministic order
	for i := 1; i < len(out); i++ {
		for j := i; j > 0 && out[j-1] > out[j]; j-- {
			out[j-1], out[j] = out[j], out[j-1]
		}
	}
	return out
}

func c07Units(t Tier, seed uint64) []engine.Unit {
	var us []engine.Unit
	thorough := t.F > 1
	for _, c := range numCodecs() {
		c := c
		switch {
		case c.width <= 2:
			total := uint64(1) << (uint(c.width) * 8)
			name := "c07/" + c.name + "/all-values-chain"
			us = append(us, engine.Unit{Name: name, Run: func(res *ev.Result) {
				x := &c07{c: c, res: res, unit: name}
				x.chain(0, total, total, 1)
				res.Exhaustive[name] = !x.dead
			}})
			// all ordered pairs
			if c.width == 1 || thorough {
				parts := 1
				if c.width == 2 {
					parts = 64
				}
				for p := 0; p < parts; p++ {
					p := p
					pname := fmt.Sprintf("c07/%s/all-pairs/%d", c.name, p)
					us = append(us, engine.Unit{Name: pname, Run: func(res *ev.Result) {
						x := &c07{c: c, res: res, unit: pname}
						encs := make([][]byte, total)
						for v := uint64(0); v < total; v++ {
							e, ok := guardEnc(x, v)
							if !ok {
								return
							}
							encs[v] = e
						}
						n := int64(0)
						for a := uint64(p); a < total && !x.dead; a += uint64(parts) {
							for b := uint64(0); b < total; b++ {
								if !x.pair(a, b, encs[a], encs[b]) {
									return
								}
								if a != b && bytes.Equal(encs[a], encs[b]) {
									x.fail("two different values share one encoding", "distinct", fmt.Sprintf("%s and %s -> %x", c.show(a), c.show(b), encs[a]))
									return
								}
								n++
							}
						}
						res.Count("distinct_by_construction", n)
						res.Count("all_pairs_"+c.name, n)
						res.Exhaustive[pname] = true
					}})
				}
			}
		case c.width == 4:
			total := uint64(1) << 32
			chunks := uint64(256)
			stride := uint64(1)
			if !thorough {
				stride = 257 // ~2^24 values, every byte lane moves
			}
			for ch := uint64(0); ch < chunks; ch++ {
				lo, hi := ch*(total/chunks), (ch+1)*(total/chunks)
				name := fmt.Sprintf("c07/%s/chain/%d", c.name, ch)
				us = append(us, engine.Unit{Name: name, Run: func(res *ev.Result) {
					x := &c07{c: c, res: res, unit: name}
					off := uint64(0)
					if stride > 1 {
						off = rng.New(seed, rng.HashString(name)).U64() % stride
					}
					x.chain(lo+off, hi, total, stride)
					if stride == 1 {
						res.Exhaustive[name] = !x.dead
					}
				}})
			}
		}
		// the returned encoding is the caller's: a codec that builds a tuple by appending the
		// following fields onto it must not disturb any other encoding
		aname := "c07/" + c.name + "/append-onto-encoding"
		us = append(us, engine.Unit{Name: aname, Run: func(res *ev.Result) {
			x := &c07{c: c, res: res, unit: aname}
			r := rng.New(seed, rng.HashString(aname))
			m := mask(c.width)
			var probes []uint64
			if c.width == 1 {
				for v := uint64(0); v < 256; v++ {
					probes = append(probes, v)
				}
			} else {
				bs := boundaryBits(c)
				for i := 0; i < 300; i++ {
					probes = append(probes, bs[r.Intn(len(bs))], r.U64()&m)
				}
			}
			for _, v := range probes {
				_, e := c.enc(v)
				e = append(e, 0xAA, 0xBB, 0xCC, 0xDD, 0xEE) // what a compound encoder does with its first field
				_ = e
				// neighbours (and for 8-bit types every value) must still encode correctly
				var again []uint64
				if c.width == 1 {
					again = probes
				} else {
					again = []uint64{v, (v + 1) & m, (v + 2) & m, (v - 1) & m, (v + 256) & m}
				}
				var prev []byte
				var prevBits uint64
				for i, w := range again {
					ew, ok := x.value(w)
					if !ok {
						return
					}
					if c.width == 1 && i > 0 && !x.pair(prevBits, w, prev, ew) {
						return
					}
					prev, prevBits = ew, w
				}
			}
			res.Count("append_onto_encoding_probes_"+c.name, int64(len(probes)))
			res.Count("append_onto_encoding_probes", int64(len(probes)))
		}})
		// boundary set: all ordered pairs + ulp chains (every width; the deciding part for 64-bit)
		bname := "c07/" + c.name + "/boundary-pairs"
		us = append(us, engine.Unit{Name: bname, Run: func(res *ev.Result) {
			x := &c07{c: c, res: res, unit: bname}
			bs := boundaryBits(c)
			encs := make([][]byte, len(bs))
			for i, b := range bs {
				e, ok := x.value(b)
				if !ok {
					return
				}
				encs[i] = e
				res.Distinct(uint64(b) ^ rng.HashString(c.name))
			}
			for i := range bs {
				for j := range bs {
					if !x.pair(bs[i], bs[j], encs[i], encs[j]) {
						return
					}
					if i != j && bytes.Equal(encs[i], encs[j]) && !(c.isNaN(bs[i]) && c.isNaN(bs[j])) {
						x.fail("two different values share one encoding", "distinct", fmt.Sprintf("%s and %s -> %x", c.show(bs[i]), c.show(bs[j]), encs[i]))
						return
					}
				}
			}
			res.Count("boundary_values_"+c.name, int64(len(bs)))
			res.Count("boundary_pairs_"+c.name, int64(len(bs))*int64(len(bs)))
			if res.WantSample() {
				res.Sample(map[string]any{"unit": bname, "type": c.name, "boundary_values": len(bs), "first": []string{c.show(bs[0]), c.show(bs[len(bs)/2]), c.show(bs[len(bs)-1])}})
			}
			// +-k ulp chains around each member
			m := mask(c.width)
			for _, b := range bs {
				for d := uint64(0); d < 4 && !x.dead; d++ {
					u, v := (b+d)&m, (b+d+1)&m
					eu, ok1 := x.value(u)
					if !ok1 {
						return
					}
					evv, ok2 := x.value(v)
					if !ok2 {
						return
					}
					x.pair(u, v, eu, evv)
				}
			}
		}})
		if c.width == 8 || thorough {
			parts := 16
			per := 400000 * t.F
			if !thorough {
				per = 600000
			}
			for p := 0; p < parts; p++ {
				rname := fmt.Sprintf("c07/%s/random-pairs/%d", c.name, p)
				us = append(us, engine.Unit{Name: rname, Run: func(res *ev.Result) {
					x := &c07{c: c, res: res, unit: rname}
					r := rng.New(seed, rng.HashString(rname))
					m := mask(c.width)
					for i := 0; i < per && !x.dead; i++ {
						a := r.U64() & m
						var b uint64
						switch r.Intn(4) {
						case 0:
							b = r.U64() & m
						case 1: // differ in exactly one bit
							b = a ^ (uint64(1) << r.Intn(c.width*8))
						case 2: // share leading bytes
							sh := uint(r.Intn(c.width*8-1) + 1)
							b = (a &^ (uint64(1)<<sh - 1)) | (r.U64() & (uint64(1)<<sh - 1))
						default: // close
							b = (a + uint64(r.Intn(512)) - 256) & m
						}
						ea, ok1 := x.value(a)
						if !ok1 {
							return
						}
						eb, ok2 := x.value(b)
						if !ok2 {
							return
						}
						if !x.pair(a, b, ea, eb) {
							return
						}
						if a != b && bytes.Equal(ea, eb) && !(c.isNaN(a) && c.isNaN(b)) {
							x.fail("two different values share one encoding", "distinct", fmt.Sprintf("%s and %s -> %x", c.show(a), c.show(b), ea))
							return
						}
						if i&15 == 0 {
							res.Distinct(a*0x9E3779B97F4A7C15 ^ b)
						}
					}
					res.Count("random_pairs_"+c.name, int64(per))
				}})
			}
		}
	}
	// tuple corollary: concatenations of the library's encodings order tuples lexicographically
	nSchemas := 40 * t.F
	for i := 0; i < nSchemas; i++ {
		i := i
		name := fmt.Sprintf("c07/tuples/%d", i)
		us = append(us, engine.Unit{Name: name, Run: func(res *ev.Result) {
			r := rng.New(seed, rng.HashString(name))
			s := kinds.RandomSchema(r)
			s.Str = false
			k := kinds.CompoundKindV(s, true, i%2 == 1)
			n := 3000
			if msg := kinds.CodecContract(k, r, n); msg != "" {
				res.Violate(ev.Violation{Prop: "C07", Kind: k.Name, Unit: name, What: "concatenated encodings do not order tuples lexicographically: " + msg})
			}
			res.Evaluations += int64(n)
			res.Count("tuple_pairs", int64(n))
			res.Distinct(rng.HashString(k.Name))
		}})
	}
	return us
}
