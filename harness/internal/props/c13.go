package props

import (
	"bytes"
	"fmt"
	"iter"

	art "github.com/Clement-Jean/go-art"
	"golang.org/x/text/unicode/norm"

	"verif/internal/engine"
	"verif/internal/ev"
	"verif/internal/kinds"
	"verif/internal/ref"
	"verif/internal/rng"
)

// C13: (a) no operation writes to the caller's key memory (whole backing
// array, canary-filled); (b) the tree does not retain the caller's buffer:
// scribbling over it after the call changes nothing.

type c13tree struct {
	name      string
	coll      bool
	mk        func() art.Tree[[]byte, uint64]
	k         *kinds.Kind[[]byte]
	checkIter bool
}

// fixedBytesKind: fixed-width binary keys (8 bytes, any byte value) in a compound tree
// whose codec is the library's own byte-string codec: prefix-free because of the fixed
// width, so the codec contract holds.
func fixedBytesKind() *kinds.Kind[[]byte] {
	k := kinds.AlphaBytes()
	k.Name = "compound/bytes8/AlphabeticalOrderKey"
	k.Family = "compound"
	k.New = func() art.Tree[[]byte, uint64] {
		return art.NewCompoundTree[[]byte, uint64](art.AlphabeticalOrderKey[[]byte]{})
	}
	fix := func(b []byte) []byte {
		out := make([]byte, 8)
		copy(out, b)
		return out
	}
	pool := k.Pool
	k.Pool = func(r *rng.R, n int) [][]byte {
		ps := pool(r, n)
		for i := range ps {
			ps[i] = fix(ps[i])
			if r.Chance(1, 3) {
				ps[i] = r.Bytes(8)
			}
		}
		return ps
	}
	near := k.Near
	k.Near = func(r *rng.R, b []byte) []byte { return fix(near(r, b)) }
	k.Storable = func(m *ref.Map[[]byte], b []byte) (bool, string) { return len(b) == 8, "not-fixed-width" }
	k.HasPrefix = false
	return k
}

func c13trees() []c13tree {
	return []c13tree{
		{"compound/bytes8/AlphabeticalOrderKey", false, nil, fixedBytesKind(), true},
		{"alpha/bytes", false, func() art.Tree[[]byte, uint64] { return art.NewAlphaSortedTree[[]byte, uint64]() }, kinds.AlphaBytes(), true},
		{"coll/bytes/und", true, nil, kinds.CollBytes(kinds.CollationConfig("und")), true},
		{"coll/bytes/de+numeric", true, nil, kinds.CollBytes(kinds.CollationConfig("de+numeric")), true},
	}
}

type c13run struct {
	res  *ev.Result
	unit string
	tr   c13tree
	t    art.Tree[[]byte, uint64]
	m    *ref.Map[[]byte]
	hist []string
	dead bool
	val  uint64
	sess *engine.Session[[]byte] // read-only monitors attached to t and m (verifyContent)
	qr   *rng.R                  // query generator of the attached monitors
}

// c13cfg: the sequence monitors run after buffers were scribbled over (Range and Prefix only
// for kinds where C03/C04 apply; collation contents here are outside C04's scope).
var c13cfg = &engine.Config{Prop: "C13", Mons: engine.MIter | engine.MExt | engine.MRange | engine.MPrefix, Queries: 6}

func (x *c13run) attach(r *rng.R) {
	x.qr = rng.New(r.U64(), 13)
	x.sess = engine.Attach(x.tr.k, c13cfg, x.res, x.unit, x.t, x.m, func() []string {
		h := x.hist
		if len(h) > 300 {
			h = append([]string{fmt.Sprintf("... %d operations elided ...", len(h)-300)}, h[len(h)-300:]...)
		}
		return append(append([]string{}, h...), "(buffers of all earlier calls overwritten by the caller; then the sequence queries below)")
	})
}

// seqMonitors: after the caller reused its buffers every sequence method must still agree
// with the model (a cached bound or extreme that aliases a caller buffer shows only here).
func (x *c13run) seqMonitors() {
	if x.dead || x.sess == nil {
		return
	}
	s := x.sess
	s.CheckIter()
	if !s.Dead {
		s.CheckExtremes(x.qr)
	}
	if !s.Dead && x.tr.k.HasRange {
		if x.tr.k.Family == "alpha" && x.m.Len() > 0 {
			// directed: open-ended range from a stored key, whole-content range
			s.CheckRange(x.m.At(x.qr.Intn(x.m.Len())).Key, nil, "empty_end")
			if !s.Dead {
				s.CheckRange(x.m.At(0).Key, x.m.At(x.m.Len()-1).Key, "min_max")
			}
		}
		if !s.Dead {
			s.CheckRanges(x.qr)
		}
	}
	if !s.Dead && x.tr.k.HasPrefix && !x.tr.coll {
		s.CheckPrefixes(x.qr)
	}
	x.res.Inc("seq_monitor_rounds_after_scribble")
	if s.Dead {
		x.dead = true
	}
}

// snapshot: clone of everything All() yields.
func (x *c13run) snapshot() (ks [][]byte, vs []uint64, ok bool) {
	ok = !x.guard("All", func() {
		for k, v := range x.t.All() {
			ks = append(ks, append([]byte{}, k...))
			vs = append(vs, v)
		}
	})
	return
}

func (x *c13run) fail(what, exp, obs string) {
	x.dead = true
	h := x.hist
	if len(h) > 300 {
		h = append([]string{fmt.Sprintf("... %d operations elided ...", len(h)-300)}, h[len(h)-300:]...)
	}
	x.res.Violate(ev.Violation{Prop: "C13", Kind: x.tr.name, Unit: x.unit, What: what, Expected: exp, Observed: obs, History: h})
}

func (x *c13run) guard(what string, f func()) (panicked bool) {
	defer func() {
		if p := recover(); p != nil {
			panicked = true
			x.fail(what+" panicked", "returns normally", fmt.Sprint(p))
		}
	}()
	f()
	return
}

// place copies key into a canary-filled array at a random offset and
// returns the array and the sub-slice arr[off:off+len:off+len+spare].
func place(r *rng.R, key []byte, spare int) (arr, k []byte) {
	lead := rng.Pick(r, []int{0, 0, 1, 5, 17})
	trail := rng.Pick(r, []int{0, 3, 9})
	arr = make([]byte, lead+len(key)+spare+trail)
	for i := range arr {
		arr[i] = 0xA5 ^ byte(i*7+1) | 1 // never 0x00: a stray terminator write is always visible
	}
	copy(arr[lead:], key)
	k = arr[lead : lead+len(key) : lead+len(key)+spare]
	return
}

var spares = []int{0, 1, 2, 7, 64}

func drainSeq(seq iter.Seq2[[]byte, uint64]) {
	for range seq {
	}
}

// callWithCanary runs op with keys placed in canary arrays and compares the
// whole arrays afterwards.
func (x *c13run) callWithCanary(r *rng.R, what string, keys [][]byte, sameArray bool, op func(ks [][]byte)) {
	x.callWithCanaryOpt(r, what, keys, sameArray, false, op)
}

// compareContent: (model-free) everything All() yields right after the call, before the
// buffers are overwritten, must be what it yields afterwards.
func (x *c13run) callWithCanaryOpt(r *rng.R, what string, keys [][]byte, sameArray, compareContent bool, op func(ks [][]byte)) {
	var arrs, ks [][]byte
	if sameArray && len(keys) == 2 {
		// both bounds are sub-slices of one array
		sp := rng.Pick(r, spares)
		arr := make([]byte, len(keys[0])+len(keys[1])+sp+4)
		for i := range arr {
			arr[i] = 0x5A ^ byte(i*3) | 1
		}
		copy(arr, keys[0])
		copy(arr[len(keys[0]):], keys[1])
		arrs = [][]byte{arr}
		ks = [][]byte{arr[:len(keys[0])], arr[len(keys[0]) : len(keys[0])+len(keys[1])]}
	} else {
		for _, key := range keys {
			arr, k := place(r, key, rng.Pick(r, spares))
			arrs = append(arrs, arr)
			ks = append(ks, k)
		}
	}
	snaps := make([][]byte, len(arrs))
	for i := range arrs {
		snaps[i] = append([]byte{}, arrs[i]...)
	}
	x.hist = append(x.hist, what)
	if x.guard(what, func() { op(ks) }) {
		return
	}
	x.res.Evaluations++
	x.res.Inc("canary_calls")
	for i := range arrs {
		if !bytes.Equal(arrs[i], snaps[i]) {
			j := 0
			for j < len(arrs[i]) && arrs[i][j] == snaps[i][j] {
				j++
			}
			x.fail("the caller's memory was modified by "+what, fmt.Sprintf("backing array unchanged: %x", snaps[i]), fmt.Sprintf("byte %d changed %#02x -> %#02x: %x", j, snaps[i][j], arrs[i][j], arrs[i]))
			return
		}
	}
	var k0 [][]byte
	var v0 []uint64
	if compareContent {
		var ok bool
		if k0, v0, ok = x.snapshot(); !ok {
			return
		}
	}
	// scribble: after the call returned the buffers are the caller's again (high, low and
	// zero patterns: a retained bound may only show when the new content sorts lower)
	pat := rng.Pick(r, []byte{0xEE, 0xEE, 0x01, 0x00})
	for i := range arrs {
		for j := range arrs[i] {
			arrs[i][j] = pat
		}
	}
	if compareContent {
		k1, v1, ok := x.snapshot()
		if !ok {
			return
		}
		x.res.Inc("content_before_vs_after_scribble")
		same := len(k0) == len(k1)
		for i := 0; same && i < len(k0); i++ {
			same = bytes.Equal(k0[i], k1[i]) && v0[i] == v1[i]
		}
		if !same {
			x.fail("overwriting the key buffer after "+what+" returned changed what the tree holds", fmt.Sprintf("%d pairs: %q", len(k0), k0), fmt.Sprintf("%d pairs: %q", len(k1), k1))
		}
	}
}

// verifyContent: the tree must still hold exactly the model (keys are the
// tree's own, built from clones on the model side).
func (x *c13run) verifyContent(full bool) {
	if x.dead {
		return
	}
	for _, e := range x.m.Sorted() {
		var v uint64
		var ok bool
		if x.guard("Search", func() { v, ok = x.t.Search(append([]byte{}, e.Key...)) }) {
			return
		}
		x.res.Evaluations++
		if !ok || v != e.Val {
			x.fail("after the caller reused its key buffers a stored key is lost or changed", fmt.Sprintf("%q=%d", e.Key, e.Val), fmt.Sprintf("(%d,%v)", v, ok))
			return
		}
	}
	if !full {
		return
	}
	i := 0
	bad := ""
	if x.guard("All", func() {
		for k, v := range x.t.All() {
			if i >= x.m.Len() {
				bad = fmt.Sprintf("extra element %q", k)
				return
			}
			e := x.m.At(i)
			if !bytes.Equal(k, e.Key) || v != e.Val {
				bad = fmt.Sprintf("element %d is %q=%d", i, k, v)
				return
			}
			i++
		}
	}) {
		return
	}
	if bad == "" && i != x.m.Len() {
		bad = fmt.Sprintf("%d elements", i)
	}
	x.res.Inc("content_verifications")
	if bad != "" {
		x.fail("after the caller reused its key buffers the tree's content changed", fmt.Sprintf("%d keys as in the reference; e.g. element %d = %q", x.m.Len(), min(i, max(x.m.Len()-1, 0)), keyAt(x.m, i)), bad)
		return
	}
	x.seqMonitors()
}

// insertEquivalent (collation trees): a key the collator cannot tell from a stored one (the
// other Unicode normal form). Which spelling the tree then holds is not C13's business; that
// it does not change when the caller reuses the buffer is. The model is re-read from the tree.
func (x *c13run) insertEquivalent(r *rng.R) {
	if x.m.Len() == 0 {
		return
	}
	st := x.m.At(r.Intn(x.m.Len())).Key
	eq := norm.NFD.Bytes(st)
	if bytes.Equal(eq, st) {
		eq = norm.NFC.Bytes(st)
	}
	if bytes.Equal(eq, st) {
		x.res.Inc("equivalent_spelling_none")
		return
	}
	x.val++
	v := x.val
	x.callWithCanaryOpt(r, fmt.Sprintf("Insert(%q) [other normal form of stored %q]", eq, st), [][]byte{eq}, false, true, func(ks [][]byte) { x.t.Insert(ks[0], v) })
	if x.dead {
		return
	}
	x.res.Inc("equivalent_spelling_inserts")
	ks, vs, ok := x.snapshot()
	if !ok {
		return
	}
	m := ref.New(x.tr.k.Cmp, x.tr.k.ID)
	for i := range ks {
		m.Put(ks[i], vs[i])
	}
	if m.Len() != len(ks) {
		// the tree holds two keys the reference cannot tell apart: outside what this model can follow
		x.res.Inc("equivalent_spelling_model_ambiguous")
		x.dead = true
		return
	}
	x.m = m
	if x.sess != nil {
		x.sess.SetModel(m)
	}
}

func keyAt(m *ref.Map[[]byte], i int) []byte {
	if i < m.Len() {
		return m.At(i).Key
	}
	return nil
}

func (x *c13run) insert(r *rng.R, key []byte) {
	if ok, _ := x.tr.k.Storable(x.m, key); !ok {
		x.res.Inc("skipped_out_of_scope")
		return
	}
	x.val++
	v := x.val
	x.callWithCanaryOpt(r, fmt.Sprintf("Insert(%q)", key), [][]byte{key}, false, x.m.Len() <= 48 && r.Chance(1, 3), func(ks [][]byte) { x.t.Insert(ks[0], v) })
	if !x.dead {
		x.m.Put(append([]byte{}, key...), v)
	}
}

func c13History(res *ev.Result, unit string, tr c13tree, r *rng.R, nOps int) {
	x := &c13run{res: res, unit: unit, tr: tr, m: ref.New(tr.k.Cmp, tr.k.ID)}
	x.t = tr.k.New()
	x.attach(r)
	pool := tr.k.Pool(r, 6+r.Intn(60))
	pool = append(pool, []byte{}) // the empty key (with spare capacity) matters
	pick := func() []byte {
		if x.m.Len() > 0 && r.Chance(1, 2) {
			return x.m.At(r.Intn(x.m.Len())).Key
		}
		if r.Chance(1, 6) && x.m.Len() > 0 {
			return tr.k.Near(r, x.m.At(r.Intn(x.m.Len())).Key)
		}
		return rng.Pick(r, pool)
	}
	for i := 0; i < nOps && !x.dead; i++ {
		switch r.Intn(10) {
		case 0, 1, 2, 3:
			if tr.coll && r.Chance(1, 8) {
				x.insertEquivalent(r)
				continue
			}
			x.insert(r, rng.Pick(r, pool))
		case 4:
			key := pick()
			want := x.m.Has(key)
			var got bool
			x.callWithCanary(r, fmt.Sprintf("Delete(%q)", key), [][]byte{key}, false, func(ks [][]byte) { got = x.t.Delete(ks[0]) })
			if !x.dead {
				if got != want {
					x.fail("Delete result differs from the reference after buffer reuse", fmt.Sprint(want), fmt.Sprint(got))
				}
				x.m.Del(key)
			}
		case 5, 6:
			key := pick()
			wv, wok := x.m.Get(key)
			var v uint64
			var ok bool
			x.callWithCanary(r, fmt.Sprintf("Search(%q)", key), [][]byte{key}, false, func(ks [][]byte) { v, ok = x.t.Search(ks[0]) })
			if !x.dead && (ok != wok || (ok && v != wv)) {
				x.fail("Search result differs from the reference after buffer reuse", fmt.Sprintf("(%d,%v)", wv, wok), fmt.Sprintf("(%d,%v)", v, ok))
			}
		case 7:
			if !tr.k.HasPrefix {
				continue
			}
			p := pick()
			if len(p) > 0 && r.Chance(1, 2) {
				p = p[:r.Intn(len(p)+1)]
			}
			if tr.coll && !tr.k.PrefixArgOK(p) && r.Chance(1, 2) {
				p = []byte("a")
			}
			x.callWithCanary(r, fmt.Sprintf("Prefix(%q)", p), [][]byte{p}, false, func(ks [][]byte) { drainSeq(x.t.Prefix(ks[0])) })
		case 8:
			a, b := pick(), pick()
			same := r.Chance(1, 3)
			if r.Chance(1, 6) && tr.k.Family != "compound" {
				b = []byte{} // empty end bound
			}
			x.callWithCanary(r, fmt.Sprintf("Range(%q,%q) sameArray=%v", a, b, same), [][]byte{a, b}, same, func(ks [][]byte) { drainSeq(x.t.Range(ks[0], ks[1])) })
		default:
			if x.m.Len() == 0 {
				continue
			}
			if r.Chance(1, 2) {
				// pop idiom: take the smallest key from the tree, delete it through that very
				// slice, insert something else; the slice the caller holds must not change
				var k0 []byte
				var ok0 bool
				if x.guard("Minimum", func() { k0, _, ok0 = x.t.Minimum() }) {
					return
				}
				if !ok0 {
					continue
				}
				snap := append([]byte{}, k0...)
				x.hist = append(x.hist, fmt.Sprintf("k := Minimum() (%q); Delete(k); Insert(other)", k0))
				var got bool
				if x.guard("Delete", func() { got = x.t.Delete(k0) }) {
					return
				}
				if !got {
					x.fail("Delete through the key slice returned by Minimum() reports absent", "true", "false")
					return
				}
				x.m.Del(snap)
				for tries := 0; tries < 3; tries++ {
					nk := rng.Pick(r, pool)
					if len(nk) <= len(snap) {
						x.insert(r, nk)
						break
					}
				}
				if x.dead {
					return
				}
				x.res.Inc("pop_idiom_checks")
				if !bytes.Equal(k0, snap) {
					x.fail("a key slice handed out by the tree changed after the key was deleted and another inserted", fmt.Sprintf("%q", snap), fmt.Sprintf("%q", k0))
					return
				}
				continue
			}
			// keys handed out by the tree, re-sliced shorter, used as arguments
			var got []byte
			n := r.Intn(x.m.Len())
			i := 0
			if x.guard("All", func() {
				for k := range x.t.All() {
					if i == n {
						got = k
						break
					}
					i++
				}
			}) {
				return
			}
			if len(got) == 0 {
				continue
			}
			cut := r.Intn(len(got))
			arg := got[:cut]
			snap := append([]byte{}, got[:cap(got)]...)
			x.hist = append(x.hist, fmt.Sprintf("Search(<key %q yielded by All(), re-sliced to %d bytes>)", got, cut))
			if x.guard("Search", func() { x.t.Search(arg) }) {
				return
			}
			x.res.Inc("canary_calls_on_yielded_keys")
			if !bytes.Equal(got[:cap(got)], snap) {
				x.fail("Search wrote beyond the length of its key argument (a shortened re-slice of a key the tree yielded)", fmt.Sprintf("%x", snap), fmt.Sprintf("%x", got[:cap(got)]))
				return
			}
		}
		if i%7 == 0 {
			x.verifyContent(i%21 == 0)
		}
	}
	x.verifyContent(true)
	if x.m.Len() >= 2 {
		h := ev.NewHasher()
		h.Str(tr.name)
		for _, e := range x.m.Sorted() {
			h.Bytes(e.Key)
		}
		res.Distinct(h.Sum())
	}
	if res.WantSample() {
		res.Sample(map[string]any{"unit": unit, "tree": tr.name, "ops": len(x.hist), "first_ops": x.hist[:min(6, len(x.hist))]})
	}
}

// scanner idiom: one buffer reused for many successive keys and operations.
func c13Scanner(res *ev.Result, unit string, tr c13tree, r *rng.R, n int) {
	x := &c13run{res: res, unit: unit, tr: tr, m: ref.New(tr.k.Cmp, tr.k.ID)}
	x.t = tr.k.New()
	x.attach(r)
	pool := tr.k.Pool(r, 8+r.Intn(200))
	// equal-length families make "same buffer, same length, other content" frequent
	for i := 0; i < 30; i++ {
		pool = append(pool, []byte(fmt.Sprintf("k%02d", r.Intn(100))))
	}
	buf := make([]byte, 0, 96)
	load := func(key []byte) []byte {
		buf = buf[:0]
		buf = append(buf, key...)
		return buf[:len(key)]
	}
	for i := 0; i < n && !x.dead; i++ {
		key := rng.Pick(r, pool)
		if len(key) > 90 {
			continue
		}
		switch r.Intn(6) {
		case 0, 1, 2:
			if ok, _ := tr.k.Storable(x.m, key); !ok {
				continue
			}
			x.val++
			v := x.val
			x.hist = append(x.hist, fmt.Sprintf("Insert(buf=%q)", key))
			if x.guard("Insert", func() { x.t.Insert(load(key), v) }) {
				return
			}
			x.m.Put(append([]byte{}, key...), v)
		case 3:
			x.hist = append(x.hist, fmt.Sprintf("Delete(buf=%q)", key))
			var got bool
			if x.guard("Delete", func() { got = x.t.Delete(load(key)) }) {
				return
			}
			if want := x.m.Del(key); got != want {
				x.fail("Delete through a reused buffer differs from the reference", fmt.Sprint(want), fmt.Sprint(got))
				return
			}
		default:
			x.hist = append(x.hist, fmt.Sprintf("Search(buf=%q)", key))
			var v uint64
			var ok bool
			if x.guard("Search", func() { v, ok = x.t.Search(load(key)) }) {
				return
			}
			wv, wok := x.m.Get(key)
			if ok != wok || (ok && v != wv) {
				x.fail("Search through a reused buffer differs from the reference", fmt.Sprintf("(%d,%v)", wv, wok), fmt.Sprintf("(%d,%v)", v, ok))
				return
			}
		}
		x.res.Evaluations++
		x.res.Inc("scanner_ops")
		if i%50 == 49 {
			for j := range buf[:cap(buf)] {
				buf[:cap(buf)][j] = 0xDD
			}
			x.verifyContent(true)
		}
	}
	x.verifyContent(true)
	h := ev.NewHasher()
	h.Str(unit)
	res.Distinct(h.Sum())
}

// rune-slice collation keys: buffer reuse only (b).
func c13Runes(res *ev.Result, unit string, r *rng.R, n int) {
	k := kinds.CollRunes()
	t := k.New()
	m := ref.New(k.Cmp, k.ID)
	buf := make([]rune, 0, 64)
	pool := k.Pool(r, 60)
	var hist []string
	fail := func(what, exp, obs string) {
		res.Violate(ev.Violation{Prop: "C13", Kind: k.Name, Unit: unit, What: what, Expected: exp, Observed: obs, History: hist})
	}
	val := uint64(0)
	for i := 0; i < n; i++ {
		key := rng.Pick(r, pool)
		if len(key) > 60 {
			continue
		}
		if ok, _ := k.Storable(m, key); !ok {
			continue
		}
		buf = append(buf[:0], key...)
		arg := buf[:len(key)]
		snap := append([]rune{}, buf[:cap(buf)]...)
		val++
		hist = append(hist, fmt.Sprintf("Insert(buf=%q)", string(key)))
		t.Insert(arg, val)
		for j, c := range buf[:cap(buf)] {
			if c != snap[j] {
				fail("Insert modified the caller's rune buffer", "unchanged", fmt.Sprintf("rune %d", j))
				return
			}
		}
		m.Put(k.Clone(key), val)
		for j := range buf[:cap(buf)] {
			buf[:cap(buf)][j] = 'Z'
		}
		res.Evaluations++
		if i%10 == 9 {
			idx := 0
			for kk, v := range t.All() {
				if idx >= m.Len() || string(kk) != string(m.At(idx).Key) || v != m.At(idx).Val {
					fail("after the caller reused its rune buffer the tree's content changed", fmt.Sprintf("%d keys as in the reference", m.Len()), fmt.Sprintf("element %d is %q", idx, string(kk)))
					return
				}
				idx++
			}
			if idx != m.Len() {
				fail("after the caller reused its rune buffer the tree's content changed", fmt.Sprint(m.Len()), fmt.Sprint(idx))
				return
			}
			res.Inc("content_verifications")
		}
	}
	res.Inc("rune_units")
	h := ev.NewHasher()
	h.Str(unit)
	res.Distinct(h.Sum())
}

func c13Units(t Tier, seed uint64, mode string) []engine.Unit {
	var us []engine.Unit
	for ti, tr := range c13trees() {
		_ = ti
		tr := tr
		for i := 0; i < 400*t.F; i++ {
			name := fmt.Sprintf("c13/%s/hist/%d", tr.name, i)
			us = append(us, engine.Unit{Name: name, Run: func(res *ev.Result) {
				r := rng.New(seed, rng.HashString(name))
				c13History(res, name, tr, r, 40+r.Intn(260))
				res.Inc("units_history")
			}})
		}
		for i := 0; i < 12*t.F; i++ {
			name := fmt.Sprintf("c13/%s/scanner/%d", tr.name, i)
			us = append(us, engine.Unit{Name: name, Run: func(res *ev.Result) {
				r := rng.New(seed, rng.HashString(name))
				n := 1000
				if i%3 == 2 {
					n = 20000
				}
				c13Scanner(res, name, tr, r, n)
				res.Inc("units_scanner")
			}})
		}
	}
	for i := 0; i < 8*t.F; i++ {
		name := fmt.Sprintf("c13/coll/runes/%d", i)
		us = append(us, engine.Unit{Name: name, Run: func(res *ev.Result) {
			c13Runes(res, name, rng.New(seed, rng.HashString(name)), 300)
		}})
	}
	return us
}
