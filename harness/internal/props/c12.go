package props

import (
	"fmt"
	"runtime"
	"runtime/debug"

	art "github.com/Clement-Jean/go-art"

	"verif/internal/engine"
	"verif/internal/ev"
	"verif/internal/kinds"
	"verif/internal/rng"
)

// stepperMaker builds the same per-tree history twice: once for the
// interleaved run, once for the solo twin.
type stepperMaker func(res *ev.Result, cfg *engine.Config, name string, seed uint64) engine.Stepper

func mkStepper[K any](k func() *kinds.Kind[K], nOps int, fan bool) stepperMaker {
	return func(res *ev.Result, cfg *engine.Config, name string, seed uint64) engine.Stepper {
		kk := k()
		if fan && nOps%2 == 0 && kk.Fan != nil {
			// threshold walk: every grow and shrink edge, several times
			return engine.NewSweepStepper(kk, cfg, res, name, seed, cfg.Has(engine.MShape))
		}
		if fan && kk.Fan != nil {
			// contents drawn from one 256-way fan-out family: the history drives a
			// single node up and down through every size class
			orig := kk.Pool
			kk.Pool = func(r *rng.R, n int) []K {
				f := kk.Fan(r)
				if len(f) < 200 {
					return orig(r, n)
				}
				return f
			}
		}
		return engine.NewStepper(kk, cfg, res, name, seed, nOps, 200, cfg.Has(engine.MShape))
	}
}

func c12Makers(r *rng.R, n int) []stepperMaker {
	all := []func(nOps int, fan bool) stepperMaker{
		func(o int, f bool) stepperMaker { return mkStepper(kinds.AlphaString, o, f) },
		func(o int, f bool) stepperMaker { return mkStepper(kinds.AlphaBytes, o, f) },
		func(o int, f bool) stepperMaker { return mkStepper(kinds.Uint16, o, f) },
		func(o int, f bool) stepperMaker { return mkStepper(kinds.Uint64, o, f) },
		func(o int, f bool) stepperMaker { return mkStepper(kinds.Int16, o, f) },
		func(o int, f bool) stepperMaker { return mkStepper(kinds.Int32, o, f) },
		func(o int, f bool) stepperMaker { return mkStepper(kinds.Float64, o, f) },
		func(o int, f bool) stepperMaker {
			return mkStepper(func() *kinds.Kind[string] { return kinds.CollString(kinds.CollationConfig("und")) }, o, f)
		},
		func(o int, f bool) stepperMaker { return mkStepper(kinds.CollStringDefault, o, f) },
		func(o int, f bool) stepperMaker { return mkStepper(kinds.CollRunes, o, f) },
		func(o int, f bool) stepperMaker {
			return mkStepper(func() *kinds.Kind[kinds.Tuple] {
				return kinds.CompoundKind(kinds.Schema{Fields: []kinds.FieldType{kinds.FU16, kinds.FI32}, Str: true}, true)
			}, o, f)
		},
	}
	var out []stepperMaker
	for i := 0; i < n; i++ {
		nOps := 300 + r.Intn(900)
		fan := r.Chance(2, 3)
		out = append(out, all[r.Intn(len(all))](nOps, fan))
	}
	return out
}

func c12Scenario(res *ev.Result, unit string, seed uint64, pinned bool) {
	r := rng.New(seed, rng.HashString(unit))
	if pinned {
		// one P and no collections: sync.Pool is never cleared, a released node
		// is what the next request of that class receives
		old := runtime.GOMAXPROCS(1)
		oldGC := debug.SetGCPercent(-1)
		defer func() {
			runtime.GOMAXPROCS(old)
			debug.SetGCPercent(oldGC)
		}()
	}
	cfg := &engine.Config{Prop: "C12", Mons: engine.MMap | engine.MIter | engine.MSize | engine.MShape | engine.MExt, Queries: 1}
	nTrees := 2 + r.Intn(7)
	makers := c12Makers(r, nTrees)
	var sts []engine.Stepper
	for i, mk := range makers {
		sts = append(sts, mk(res, cfg, fmt.Sprintf("%s/tree%d", unit, i), seed))
	}
	owner := map[uintptr]int{}
	class := map[uintptr]int{}
	alive := len(sts)
	// staggered starts: tree i joins after i*offset bursts, so that one tree
	// shrinks while the next grows
	burstNo := 0
	for alive > 0 {
		alive = 0
		for i, st := range sts {
			if burstNo < i*3 && r.Chance(2, 3) {
				alive++
				continue
			}
			burst := 1 + r.Intn(40)
			ok := true
			for b := 0; b < burst && ok; b++ {
				ok = st.Step()
			}
			if st.Dead() {
				return
			}
			if ok {
				alive++
			}
			// measured cross-tree reuse (observe-only)
			for a, k := range st.Addrs() {
				if o, seen := owner[a]; seen && o != i && class[a] == k {
					res.Inc(fmt.Sprintf("reuse_across_trees_class_%d", k))
				} else if seen && o != i {
					res.Inc("reuse_across_trees_other_class")
				}
				owner[a] = i
				class[a] = k
			}
		}
		burstNo++
		if burstNo%3 == 0 && len(sts) >= 2 {
			// trees are independent also while their iterations are nested in one another
			i, j := r.Intn(len(sts)), r.Intn(len(sts))
			if i != j && sts[i].Len() > 0 && !sts[i].Dead() && !sts[j].Dead() {
				sts[j].AbandonDescending()
				sts[i].IterNested(r.Intn(sts[i].Len()), func() { sts[j].IterNested(-1, nil) })
				if sts[i].Dead() || sts[j].Dead() {
					return
				}
				// lazy sequences of one tree stay valid while other trees are queried
				sts[i].PendingSeqs(r, func() { sts[j].PendingSeqs(r, nil) })
				if sts[i].Dead() || sts[j].Dead() {
					return
				}
			}
		}
		if pinned && burstNo%6 == 0 {
			// bound the harness's own garbage (dumps, histories); the pools refill at once
			runtime.GC()
		}
	}
	// twin runs: each per-tree history alone
	for i, mk := range makers {
		solo := mk(res, cfg, fmt.Sprintf("%s/tree%d", unit, i), seed)
		for solo.Step() {
		}
		if solo.Dead() {
			return
		}
		res.Inc("twin_runs")
		if solo.Chain() != sts[i].Chain() || solo.Steps() != sts[i].Steps() {
			res.Violate(ev.Violation{Prop: "C12", Kind: "mixed", Unit: sts[i].Name(),
				What:     "a tree interleaved with other trees does not behave as it does alone (result trace or structural dumps differ at some step)",
				Expected: fmt.Sprintf("chain %#x after %d steps (solo run)", solo.Chain(), solo.Steps()),
				Observed: fmt.Sprintf("chain %#x after %d steps (interleaved with %d other trees)", sts[i].Chain(), sts[i].Steps(), len(sts)-1)})
			return
		}
	}
	nz := art.VerifPoolAudit(4)
	for c, n := range nz {
		if n > 0 {
			res.Count(fmt.Sprintf("diagnostic_pool_audit_nonzero_class_idx%d", c), int64(n))
		}
	}
	res.Inc("units_scenario")
	h := ev.NewHasher()
	h.Str(unit)
	for _, st := range sts {
		h.U64(st.Chain())
	}
	res.Distinct(h.Sum())
	if res.WantSample() {
		var names []string
		for _, st := range sts {
			names = append(names, fmt.Sprintf("%s steps=%d", st.Name(), st.Steps()))
		}
		res.Sample(map[string]any{"unit": unit, "pinned_single_P_no_GC": pinned, "trees": names})
	}
}

func c12Units(t Tier, seed uint64) []engine.Unit {
	var us []engine.Unit
	for i := 0; i < 16*t.F; i++ {
		i := i
		pinned := i%2 == 0
		name := fmt.Sprintf("c12/scenario/%d", i)
		if pinned {
			name += "/pinned"
		}
		us = append(us, engine.Unit{Name: name, Run: func(res *ev.Result) { c12Scenario(res, name, seed, pinned) }})
	}
	collInterleaveUnits(&us, "C12", seed, 5*t.F)
	return us
}
