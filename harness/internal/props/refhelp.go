package props

import (
	"verif/internal/kinds"
	"verif/internal/ref"
)

type refMap[K any] = ref.Map[K]

func newRefMap[K any](k *kinds.Kind[K]) *ref.Map[K] { return ref.New(k.Cmp, k.ID) }
