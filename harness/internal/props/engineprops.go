// Package props turns a property id and a tier into a list of units.
package props

import (
	"fmt"

	"verif/internal/engine"
	"verif/internal/ev"
	"verif/internal/kinds"
	"verif/internal/rng"
)

type Tier struct {
	Name string
	F    int // scale factor for case counts
}

// thoroughFactor: how many times the quick case lists the thorough tier runs, per
// property (sized so that each thorough check takes minutes, not seconds, on 16 cores).
var thoroughFactor = map[string]int{
	"C01": 100, "C02": 60, "C04": 300, "C06": 100, "C08": 300, "C13": 300, "C14": 60, "C15": 40, "C11": 40,
}

func TierOf(name, prop string) Tier {
	if name == "thorough" {
		if f, ok := thoroughFactor[prop]; ok {
			return Tier{"thorough", f}
		}
		return Tier{"thorough", 30}
	}
	return Tier{"quick", 1}
}

func add[K any](us *[]engine.Unit, k *kinds.Kind[K], cfg *engine.Config, seed uint64) {
	*us = append(*us, engine.UnitsFor(k, cfg, seed)...)
}

func alphaUnits(us *[]engine.Unit, cfg *engine.Config, seed uint64) {
	add(us, kinds.AlphaString(), cfg, seed)
	add(us, kinds.AlphaBytes(), cfg, seed)
}

func numericUnits(us *[]engine.Unit, cfg *engine.Config, seed uint64) {
	add(us, kinds.Uint8(), cfg, seed)
	add(us, kinds.Uint16(), cfg, seed)
	add(us, kinds.Uint32(), cfg, seed)
	add(us, kinds.Uint64(), cfg, seed)
	add(us, kinds.Uint(), cfg, seed)
	add(us, kinds.Int8(), cfg, seed)
	add(us, kinds.Int16(), cfg, seed)
	add(us, kinds.Int32(), cfg, seed)
	add(us, kinds.Int64(), cfg, seed)
	add(us, kinds.Int(), cfg, seed)
	add(us, kinds.Float32(), cfg, seed)
	add(us, kinds.Float64(), cfg, seed)
}

func collUnits(us *[]engine.Unit, cfg *engine.Config, seed uint64, configs []string, runes bool) {
	for i, name := range configs {
		c := kinds.CollationConfig(name)
		if i%2 == 0 {
			add(us, kinds.CollString(c), cfg, seed)
		} else {
			add(us, kinds.CollBytes(c), cfg, seed)
		}
	}
	if runes {
		add(us, kinds.CollRunes(), cfg, seed)
	}
}

func collUnitsAllTypes(us *[]engine.Unit, cfg *engine.Config, seed uint64, configs []string) {
	for _, name := range configs {
		c := kinds.CollationConfig(name)
		add(us, kinds.CollString(c), cfg, seed)
		add(us, kinds.CollBytes(c), cfg, seed)
	}
	add(us, kinds.CollRunes(), cfg, seed)
}

// collInterleaveUnits: two collation trees with DIFFERENT collators fed the same
// key in consecutive calls (configuration must not leak through shared state).
func collInterleaveUnits(us *[]engine.Unit, prop string, seed uint64, n int) {
	pairs := [][2]string{{"und", "de+numeric"}, {"und", "sv+ignorecase+numeric"}, {"en+numeric", "fr-CA"}, {"und+ignorecase", "und"}, {"da", "und+numeric"}}
	for i := 0; i < n; i++ {
		pr := pairs[i%len(pairs)]
		name := fmt.Sprintf("coll-interleave/%s-vs-%s/%d", pr[0], pr[1], i)
		*us = append(*us, engine.Unit{Name: name, Run: func(res *ev.Result) {
			r := rng.New(seed, rng.HashString(name))
			cfg := &engine.Config{Prop: prop, Mons: engine.MMap | engine.MIter | engine.MSize, Queries: 1}
			kA := kinds.CollString(kinds.CollationConfig(pr[0]))
			kB := kinds.CollString(kinds.CollationConfig(pr[1]))
			a := engine.NewSession(kA, cfg, res, name+"/A")
			b := engine.NewSession(kB, cfg, res, name+"/B")
			pool := kA.Pool(r, 20+r.Intn(80))
			for i := 0; i < 300 && !a.Dead && !b.Dead; i++ {
				key := rng.Pick(r, pool)
				switch r.Intn(4) {
				case 0, 1:
					a.Insert(key)
					b.Insert(key)
				case 2:
					a.Delete(key)
					b.Delete(key)
				default:
					a.Search(key)
					b.Search(key)
				}
				if i%10 == 9 && !a.Dead && !b.Dead {
					a.After(r)
					b.After(r)
				}
			}
			res.Inc("units_two_collators_interleaved")
		}})
	}
}

func compoundUnits(us *[]engine.Unit, cfg *engine.Config, seed uint64, schemas int) {
	for i := 0; i < schemas; i++ {
		s := kinds.RandomSchema(rng.New(seed, 0xC0DEC, uint64(i)))
		k := kinds.CompoundKindV(s, i%2 == 0, i%4 == 2)
		if cfg.Prop == "C09" {
			// the property is conditional on the codec contract: check it on the harness's own tuples first
			name := k.Name + "/codec-contract"
			*us = append(*us, engine.Unit{Name: name, Run: func(res *ev.Result) {
				r := rng.New(seed, rng.HashString(name))
				if msg := kinds.CodecContract(k, r, 3000); msg != "" {
					res.Violate(ev.Violation{Prop: "C09", Kind: k.Name, Unit: name,
						What: "the generated codec does not respect the contract (injective, prefix-free, order-preserving) the property is conditional on: " + msg})
				}
				res.Evaluations += 3000
				res.Count("codec_contract_pairs", 3000)
			}})
		}
		add(us, k, cfg, seed)
	}
}

func allKindUnits(cfg *engine.Config, seed uint64, collCfgs []string, schemas int) []engine.Unit {
	var us []engine.Unit
	alphaUnits(&us, cfg, seed)
	numericUnits(&us, cfg, seed)
	collUnits(&us, cfg, seed, collCfgs, true)
	compoundUnits(&us, cfg, seed, schemas)
	return us
}

var fewColl = []string{"und", "en", "de+numeric", "sv", "und+ignorecase"}

func allCollNames() []string {
	var out []string
	for _, c := range kinds.CollationConfigs() {
		out = append(out, c.Name)
	}
	return out
}

func base(prop string, mons engine.Mon, t Tier) *engine.Config {
	return &engine.Config{
		Prop: prop, Mons: mons,
		Histories: 40 * t.F, MinOps: 20, MaxOps: 300, PoolMin: 4, PoolMax: 160,
		CheckEvery: []int{1, 3, 10}, Queries: 6, Sweeps: 2 * t.F, Closed: true,
	}
}

// EngineUnits covers the properties decided by the history engine.
func EngineUnits(prop string, t Tier, seed uint64) ([]engine.Unit, error) {
	switch prop {
	case "C01":
		cfg := base(prop, engine.MMap, t)
		cfg.Histories = 80 * t.F
		cfg.CheckEvery = []int{1, 4, 16}
		us := allKindUnits(cfg, seed, fewColl, 6*t.F)
		if t.F > 1 {
			lc := *cfg
			lc.Histories, lc.Sweeps, lc.Closed = 0, 0, false
			lc.LongHistories, lc.LongOps = 2, 100000
			us = append(us, allKindUnits(&lc, seed, fewColl[:2], 2)...)
		}
		return us, nil
	case "C02":
		cfg := base(prop, engine.MIter, t)
		cfg.Histories = 50 * t.F
		return allKindUnits(cfg, seed, fewColl, 6*t.F), nil
	case "C03":
		cfg := base(prop, engine.MRange, t)
		cfg.ClosedAllQueries = true
		cfg.ClosedNeighbours = t.F > 1
		cfg.Histories = 50 * t.F
		cfg.Queries = 8
		cfg.CheckEvery = []int{2, 5, 10}
		var us []engine.Unit
		alphaUnits(&us, cfg, seed)
		numericUnits(&us, cfg, seed)
		compoundUnits(&us, cfg, seed, 8*t.F)
		return us, nil
	case "C04":
		cfg := base(prop, engine.MPrefix, t)
		cfg.ClosedAllQueries = true
		cfg.Histories = 120 * t.F
		cfg.Queries = 10
		cfg.CheckEvery = []int{2, 5, 10}
		cfg.PrefixScope = true
		cfg.Sweeps = 6 * t.F
		var us []engine.Unit
		alphaUnits(&us, cfg, seed)
		ccfg := *cfg
		ccfg.Histories = 40 * t.F
		ccfg.Sweeps = 0
		ccfg.Closed = false
		collUnitsAllTypes(&us, &ccfg, seed, []string{"und", "en"})
		return us, nil
	case "C05":
		cfg := base(prop, engine.MExt, t)
		cfg.Queries = 3
		return allKindUnits(cfg, seed, fewColl, 6*t.F), nil
	case "C06":
		cfg := base(prop, engine.MSize|engine.MCensus, t)
		cfg.CheckEvery = []int{5, 20}
		cfg.PoolMax = 80
		return allKindUnits(cfg, seed, fewColl, 6*t.F), nil
	case "C08":
		cfg := base(prop, engine.MMap|engine.MIter, t)
		cfg.Histories = 12 * t.F
		cfg.Sweeps = 1 * t.F
		var us []engine.Unit
		collUnitsAllTypes(&us, cfg, seed, allCollNames())
		collInterleaveUnits(&us, prop, seed, 10*t.F)
		return us, nil
	case "C09":
		cfg := base(prop, engine.MMap|engine.MIter|engine.MRange|engine.MExt|engine.MSize, t)
		cfg.Histories = 6 * t.F
		cfg.Sweeps = 1
		cfg.Queries = 4
		cfg.CheckEvery = []int{3, 10}
		var us []engine.Unit
		compoundUnits(&us, cfg, seed, 120*t.F)
		return us, nil
	case "C11":
		cfg := base(prop, engine.MShape|engine.MCensus, t)
		cfg.Histories = 30 * t.F
		cfg.PoolMax = 80
		cfg.Sweeps = 3 * t.F
		cfg.CheckEvery = []int{1000}
		us := allKindUnits(cfg, seed, append(append([]string{}, fewColl...), "en+loose"), 6*t.F)
		if t.F > 1 {
			// long histories: the shape is checked after every operation on trees of thousands of keys
			lc := *cfg
			lc.Histories, lc.Sweeps, lc.Closed = 0, 0, false
			lc.LongHistories, lc.LongOps = 1, 12000
			us = append(us, allKindUnits(&lc, seed, fewColl[:2], 2)...)
		}
		return us, nil
	case "C14":
		cfg := base(prop, engine.MSeq, t)
		cfg.Histories = 10 * t.F
		cfg.MaxOps = 120
		cfg.PoolMax = 60
		cfg.Sweeps = 0
		cfg.Closed = false
		cfg.CheckEvery = []int{15, 40}
		cfg.FanHistories = 2 * t.F
		cfg.BigHistories = 1 * t.F
		return allKindUnits(cfg, seed, fewColl, 4*t.F), nil
	case "C15":
		cfg := base(prop, engine.MPurity, t)
		cfg.Histories = 12 * t.F
		cfg.MaxOps = 150
		cfg.PoolMax = 60
		cfg.Sweeps = 1
		cfg.CheckEvery = []int{4, 9}
		return allKindUnits(cfg, seed, fewColl, 4*t.F), nil
	}
	return nil, fmt.Errorf("not an engine property: %s", prop)
}
