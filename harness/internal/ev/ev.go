// Package ev collects what a worker observed: counters, distinct digests,
// samples, violations and probe outcomes, and writes them as result.json.
package ev

import (
	"encoding/binary"
	"encoding/json"
	"fmt"
	"os"
	"sort"
)

type Violation struct {
	Prop     string   `json:"prop"`
	Kind     string   `json:"kind"`
	Unit     string   `json:"unit"`
	Seed     uint64   `json:"seed"`
	Tier     string   `json:"tier"`
	Probe    string   `json:"probe,omitempty"` // named probe, when the violation comes from one
	What     string   `json:"what"`
	Expected string   `json:"expected,omitempty"`
	Observed string   `json:"observed,omitempty"`
	Panic    string   `json:"panic,omitempty"`
	History  []string `json:"history,omitempty"`
}

type Result struct {
	Prop        string           `json:"prop"`
	Tier        string           `json:"tier"`
	Seed        uint64           `json:"seed"`
	Shard       int              `json:"shard"`
	Shards      int              `json:"shards"`
	Mode        string           `json:"mode"`
	Evaluations int64            `json:"evaluations"`
	Counters    map[string]int64 `json:"counters"`
	Samples     []any            `json:"samples"`
	Violations  []Violation      `json:"violations"`
	NViolations int64            `json:"n_violations"`
	Notes       []string         `json:"notes,omitempty"`
	Exhaustive  map[string]bool  `json:"exhaustive,omitempty"`
	Done        bool             `json:"done"`

	digests    map[uint64]struct{}
	digestCap  int
	sampleCap  int
	violCap    int
	caseLog    *os.File
	DigestFull bool `json:"digest_cap_reached"`
}

func NewResult(prop, tier string, seed uint64, shard, shards int) *Result {
	return &Result{
		Prop: prop, Tier: tier, Seed: seed, Shard: shard, Shards: shards,
		Counters: map[string]int64{}, Exhaustive: map[string]bool{},
		digests: map[uint64]struct{}{}, digestCap: 1 << 21, sampleCap: 6, violCap: 10,
	}
}

func (r *Result) Count(name string, n int64) { r.Counters[name] += n }
func (r *Result) Inc(name string)            { r.Counters[name]++ }
func (r *Result) Max(name string, v int64) {
	if v > r.Counters[name] {
		r.Counters[name] = v
	}
}

// Distinct records one non-trivial case digest.
func (r *Result) Distinct(d uint64) {
	if len(r.digests) >= r.digestCap {
		if _, ok := r.digests[d]; !ok {
			r.DigestFull = true
		}
		return
	}
	r.digests[d] = struct{}{}
}

func (r *Result) NDistinct() int { return len(r.digests) }

func (r *Result) Sample(s any) {
	if len(r.Samples) < r.sampleCap {
		r.Samples = append(r.Samples, s)
	}
}

func (r *Result) WantSample() bool { return len(r.Samples) < r.sampleCap }

func (r *Result) Violate(v Violation) {
	r.NViolations++
	if v.Prop == "" {
		v.Prop = r.Prop
	}
	v.Seed = r.Seed
	v.Tier = r.Tier
	if len(r.Violations) < r.violCap {
		r.Violations = append(r.Violations, v)
	}
}

// SetCaseLog: the worker appends the coordinates of each unit before running
// it, so that a process-fatal report can be attributed.
func (r *Result) SetCaseLog(path string) error {
	f, err := os.OpenFile(path, os.O_CREATE|os.O_WRONLY|os.O_APPEND, 0o644)
	if err != nil {
		return err
	}
	r.caseLog = f
	return nil
}

func (r *Result) LogCase(format string, a ...any) {
	if r.caseLog != nil {
		fmt.Fprintf(r.caseLog, format+"\n", a...)
	}
}

func (r *Result) Write(dir string) error {
	b, err := json.MarshalIndent(r, "", " ")
	if err != nil {
		return err
	}
	if err := os.WriteFile(fmt.Sprintf("%s/result.json", dir), b, 0o644); err != nil {
		return err
	}
	ds := make([]uint64, 0, len(r.digests))
	for d := range r.digests {
		ds = append(ds, d)
	}
	sort.Slice(ds, func(i, j int) bool { return ds[i] < ds[j] })
	buf := make([]byte, 8*len(ds))
	for i, d := range ds {
		binary.LittleEndian.PutUint64(buf[8*i:], d)
	}
	return os.WriteFile(fmt.Sprintf("%s/digests.bin", dir), buf, 0o644)
}

// Hash64 is FNV-1a over a byte slice, used for structural digests.
type Hasher struct{ h uint64 }

func NewHasher() *Hasher { return &Hasher{h: 14695981039346656037} }
func (h *Hasher) Byte(b byte) {
	h.h ^= uint64(b)
	h.h *= 1099511628211
}
func (h *Hasher) Bytes(b []byte) {
	for _, x := range b {
		h.Byte(x)
	}
	h.Byte(0xFE)
}
func (h *Hasher) U64(u uint64) {
	for i := 0; i < 8; i++ {
		h.Byte(byte(u >> (8 * i)))
	}
}
func (h *Hasher) Str(s string) { h.Bytes([]byte(s)) }
func (h *Hasher) Sum() uint64 {
	z := h.h
	z = (z ^ (z >> 30)) * 0xBF58476D1CE4E5B9
	z = (z ^ (z >> 27)) * 0x94D049BB133111EB
	return z ^ (z >> 31)
}

// Merge adds another result's observations (used after goroutines with
// private results have finished).
func (r *Result) Merge(o *Result) {
	r.Evaluations += o.Evaluations
	for k, v := range o.Counters {
		if len(k) > 4 && k[:4] == "max_" {
			r.Max(k, v)
		} else {
			r.Counters[k] += v
		}
	}
	for d := range o.digests {
		r.Distinct(d)
	}
	for _, s := range o.Samples {
		r.Sample(s)
	}
	for _, v := range o.Violations {
		if len(r.Violations) < r.violCap {
			r.Violations = append(r.Violations, v)
		}
	}
	r.NViolations += o.NViolations
	for k, v := range o.Exhaustive {
		r.Exhaustive[k] = v
	}
}
