package kinds

import (
	"fmt"
	"math"

	art "github.com/Clement-Jean/go-art"

	"verif/internal/codec"
	"verif/internal/ref"
	"verif/internal/rng"
)

type uints interface {
	uint | uint64 | uint32 | uint16 | uint8
}
type ints interface {
	int | int64 | int32 | int16 | int8
}
type floats interface{ float64 | float32 }

var interestingU64 = func() []uint64 {
	var out []uint64
	for s := 0; s < 64; s++ {
		p := uint64(1) << s
		out = append(out, p, p-1, p+1, ^p, ^(p - 1))
	}
	for _, w := range []int{8, 16, 24, 32, 40, 48, 56} {
		c := uint64(1) << w
		out = append(out, c-2, c-1, c, c+1, c+255, c+256, c+257)
	}
	out = append(out, 0, 1, 2, 3, 0x7F, 0x80, 0xFF, 0x100, 0x7FFF, 0x8000, 0xFFFF, ^uint64(0), ^uint64(0)-1)
	return out
}()

// bitPool draws raw 64-bit patterns with hostile structure; the caller
// truncates to its width.
func bitPool(r *rng.R, n int, width int) []uint64 {
	var out []uint64
	profile := r.Intn(6)
	mask := ^uint64(0)
	if width < 8 {
		mask = uint64(1)<<(uint(width)*8) - 1
	}
	for len(out) < n {
		p := profile
		if p == 5 {
			p = r.Intn(5)
		}
		switch p {
		case 0: // dense window around a boundary (byte carries)
			base := rng.Pick(r, interestingU64) - uint64(r.Intn(8))
			cnt := 2 + r.Intn(60)
			for i := 0; i < cnt; i++ {
				out = append(out, base+uint64(i))
			}
		case 1: // full-range random
			out = append(out, r.U64())
		case 2: // interesting constants and their neighbours
			out = append(out, rng.Pick(r, interestingU64)+uint64(r.Intn(5))-2)
		case 3: // shared leading bytes, varying low 1..3 bytes (long compressed paths)
			hi := r.U64()
			lowBytes := 1 + r.Intn(3)
			lm := uint64(1)<<(uint(lowBytes)*8) - 1
			cnt := 2 + r.Intn(40)
			for i := 0; i < cnt; i++ {
				out = append(out, (hi&^lm)|(r.U64()&lm))
			}
		case 4: // sparse: differ in one high byte each
			base := r.U64()
			for i := 0; i < 1+r.Intn(8); i++ {
				sh := uint(r.Intn(8)) * 8
				out = append(out, base^(uint64(r.Byte())<<sh))
			}
		}
	}
	for i := range out {
		out[i] &= mask
	}
	rng.Shuffle(r, out)
	return out[:n]
}

func nearBits(r *rng.R, u uint64, width int) uint64 {
	switch r.Intn(5) {
	case 0:
		return u + 1
	case 1:
		return u - 1
	case 2:
		return u ^ (uint64(1) << r.Intn(width*8))
	case 3:
		return u ^ (uint64(r.Byte()) << (uint(r.Intn(width)) * 8))
	default:
		return u + uint64(r.Intn(600)) - 300
	}
}

func fanBits(r *rng.R, width int) []uint64 {
	base := r.U64()
	pos := uint(r.Intn(width)) * 8
	out := make([]uint64, 256)
	for b := 0; b < 256; b++ {
		out[b] = (base &^ (uint64(0xFF) << pos)) | uint64(b)<<pos
	}
	return out
}

// fan2Bits: two stacked byte positions (width >= 2).
func fan2Bits(r *rng.R, width int) (upper []uint64, anchor int, lower []uint64) {
	if width < 2 {
		return nil, 0, nil
	}
	base := r.U64()
	pos := uint(1+r.Intn(width-1)) * 8
	b0 := uint64(40 + r.Intn(180))
	for b := uint64(0); b < 256; b++ {
		upper = append(upper, (base&^(uint64(0xFF)<<pos))|b<<pos)
	}
	lbase := (base &^ (uint64(0xFF) << pos)) | b0<<pos
	for c := uint64(0); c < 256; c++ {
		lower = append(lower, (lbase&^(uint64(0xFF)<<(pos-8)))|c<<(pos-8))
	}
	return upper, int(b0), lower
}

func alwaysStorable[K any](m *ref.Map[K], k K) (bool, string) { return true, "" }

func unsignedKind[T uints](name string, width int) *Kind[T] {
	k := &Kind[T]{
		Name: name, Family: "unsigned",
		New: func() art.Tree[T, uint64] { return art.NewUnsignedBinaryTree[T, uint64]() },
		Cmp: func(a, b T) int {
			if a < b {
				return -1
			} else if a > b {
				return 1
			}
			return 0
		},
		ID:    func(a T) string { return fmt.Sprintf("%d", uint64(a)) },
		Clone: func(a T) T { return a },
		Show:  func(a T) string { return fmt.Sprintf("%d", uint64(a)) },
		Pool: func(r *rng.R, n int) []T {
			bs := bitPool(r, n, width)
			out := make([]T, len(bs))
			for i := range bs {
				out[i] = T(bs[i])
			}
			return out
		},
		Near: func(r *rng.R, a T) T { return T(nearBits(r, uint64(a), width)) },
		Fan: func(r *rng.R) []T {
			bs := fanBits(r, width)
			out := make([]T, len(bs))
			for i := range bs {
				out[i] = T(bs[i])
			}
			return out
		},
		Fan2: func(r *rng.R) ([]T, int, []T) {
			u, a, l := fan2Bits(r, width)
			cu, cl := make([]T, len(u)), make([]T, len(l))
			for i := range u {
				cu[i] = T(u[i])
			}
			for i := range l {
				cl[i] = T(l[i])
			}
			return cu, a, cl
		},
		Deepen:   func(r *rng.R, a T) T { return a ^ 1 },
		Enc:      func(a T) []byte { return codec.Unsigned(uint64(a), width) },
		Storable: alwaysStorable[T],
		HasRange: true,
		RangeOK:  func(a, b T) (bool, string) { return true, "" },
		EmptyEnd: func(T) bool { return false },
	}
	k.Universes = func() []Universe[T] {
		cv := func(vs ...uint64) []T {
			out := make([]T, len(vs))
			for i, v := range vs {
				out[i] = T(v)
			}
			return out
		}
		us := []Universe[T]{{Name: "byte-carry", Keys: cv(0, 1, 255, 254, 2, 3, 127, 128)}}
		if width >= 2 {
			top := uint64(^T(0))
			us = append(us,
				Universe[T]{Name: "carry-256", Keys: cv(255, 256, 257, 511, 512, 0, 1, top)},
				Universe[T]{Name: "sparse-high", Keys: cv(top, top-1, top>>1, (top>>1)+1, 323, 429, 1, uint64(1)<<(uint(width)*8-3))},
			)
		}
		return us
	}
	return k
}

func signedKind[T ints](name string, width int) *Kind[T] {
	k := &Kind[T]{
		Name: name, Family: "signed",
		New: func() art.Tree[T, uint64] { return art.NewSignedBinaryTree[T, uint64]() },
		Cmp: func(a, b T) int {
			if a < b {
				return -1
			} else if a > b {
				return 1
			}
			return 0
		},
		ID:    func(a T) string { return fmt.Sprintf("%d", int64(a)) },
		Clone: func(a T) T { return a },
		Show:  func(a T) string { return fmt.Sprintf("%d", int64(a)) },
		Pool: func(r *rng.R, n int) []T {
			bs := bitPool(r, n, width)
			out := make([]T, len(bs))
			for i := range bs {
				out[i] = T(bs[i])
			}
			return out
		},
		Near: func(r *rng.R, a T) T { return T(nearBits(r, uint64(a), width)) },
		Fan: func(r *rng.R) []T {
			bs := fanBits(r, width)
			out := make([]T, len(bs))
			for i := range bs {
				out[i] = T(bs[i])
			}
			return out
		},
		Fan2: func(r *rng.R) ([]T, int, []T) {
			u, a, l := fan2Bits(r, width)
			cu, cl := make([]T, len(u)), make([]T, len(l))
			for i := range u {
				cu[i] = T(u[i])
			}
			for i := range l {
				cl[i] = T(l[i])
			}
			return cu, a, cl
		},
		Deepen:   func(r *rng.R, a T) T { return a ^ 1 },
		Enc:      func(a T) []byte { return codec.Signed(int64(a), width) },
		Storable: alwaysStorable[T],
		HasRange: true,
		RangeOK:  func(a, b T) (bool, string) { return true, "" },
		EmptyEnd: func(T) bool { return false },
	}
	k.Universes = func() []Universe[T] {
		minV := T(-1) << (uint(width)*8 - 1)
		maxV := ^minV
		cv := func(vs ...int64) []T {
			out := make([]T, len(vs))
			for i, v := range vs {
				out[i] = T(v)
			}
			return out
		}
		mn, mx := int64(minV), int64(maxV)
		us := []Universe[T]{{Name: "sign-boundary", Keys: cv(0, 1, -1, -2, mn, mx, mn+1, mx-1)}}
		if width >= 2 {
			us = append(us,
				Universe[T]{Name: "carry-256", Keys: cv(255, 256, 257, -255, -256, -257, 0, -1)},
				Universe[T]{Name: "sparse-high", Keys: cv(mx, mn, 323, 429, -323, mx>>3, mn>>3, 1)},
			)
		}
		return us
	}
	return k
}

// ---- floats ----

func f64bitsOf[T floats](f T) uint64 {
	switch v := any(f).(type) {
	case float32:
		return uint64(math.Float32bits(v))
	case float64:
		return math.Float64bits(v)
	}
	return 0
}

func fromBits[T floats](u uint64) T {
	var z T
	switch any(z).(type) {
	case float32:
		return T(math.Float32frombits(uint32(u)))
	default:
		return T(math.Float64frombits(u))
	}
}

// FloatCmp is the stated total order: NaN < -Inf < ... < -0 < +0 < ... < +Inf,
// all NaNs equal. Written with native comparison, Signbit and IsNaN only.
func FloatCmp[T floats](a, b T) int {
	fa, fb := float64(a), float64(b)
	na, nb := math.IsNaN(fa), math.IsNaN(fb)
	switch {
	case na && nb:
		return 0
	case na:
		return -1
	case nb:
		return 1
	}
	if fa < fb {
		return -1
	}
	if fa > fb {
		return 1
	}
	// equal by ==: tell -0 from +0
	sa, sb := math.Signbit(fa), math.Signbit(fb)
	switch {
	case sa && !sb:
		return -1
	case !sa && sb:
		return 1
	}
	return 0
}

func FloatID[T floats](a T) string {
	if a != a {
		return "NaN"
	}
	return fmt.Sprintf("%#x", f64bitsOf(a))
}

func floatSpecialBits(width int) []uint64 {
	if width == 4 {
		return []uint64{
			0x00000000, 0x80000000, // +-0
			0x7F800000, 0xFF800000, // +-Inf
			0x7FC00000, 0xFFC00000, 0x7F800001, 0xFFFFFFFF, 0x7FFFFFFF, 0xFF800001, // NaNs
			0x00000001, 0x80000001, 0x007FFFFF, 0x807FFFFF, // subnormals
			0x00800000, 0x80800000, 0x7F7FFFFF, 0xFF7FFFFF, // min/max normal
			0x3F800000, 0xBF800000, 0x40000000, 0xC0000000, 0x3F000000, // 1,-1,2,-2,.5
			0x4B800000, 0xCB800000, // 2^24
		}
	}
	return []uint64{
		0x0000000000000000, 0x8000000000000000,
		0x7FF0000000000000, 0xFFF0000000000000,
		0x7FF8000000000000, 0xFFF8000000000000, 0x7FF0000000000001, 0xFFFFFFFFFFFFFFFF, 0x7FFFFFFFFFFFFFFF, 0xFFF0000000000001,
		0x0000000000000001, 0x8000000000000001, 0x000FFFFFFFFFFFFF, 0x800FFFFFFFFFFFFF,
		0x0010000000000000, 0x8010000000000000, 0x7FEFFFFFFFFFFFFF, 0xFFEFFFFFFFFFFFFF,
		0x3FF0000000000000, 0xBFF0000000000000, 0x4000000000000000, 0xC000000000000000, 0x3FE0000000000000,
		0x4340000000000000, 0xC340000000000000,
	}
}

func floatKind[T floats](name string, width int) *Kind[T] {
	specials := floatSpecialBits(width)
	mask := ^uint64(0)
	if width == 4 {
		mask = 0xFFFFFFFF
	}
	gen := func(r *rng.R) uint64 {
		switch r.Intn(6) {
		case 0:
			return rng.Pick(r, specials)
		case 1: // neighbours of specials (+-k ulp)
			return (rng.Pick(r, specials) + uint64(r.Intn(5)) - 2) & mask
		case 2: // small integers, both signs
			v := float64(r.Intn(2000) - 1000)
			if width == 4 {
				return uint64(math.Float32bits(float32(v)))
			}
			return math.Float64bits(v)
		case 3: // fractions
			v := float64(r.Intn(2000)-1000) / float64(1+r.Intn(64))
			if width == 4 {
				return uint64(math.Float32bits(float32(v)))
			}
			return math.Float64bits(v)
		default:
			return r.U64() & mask
		}
	}
	k := &Kind[T]{
		Name: name, Family: "float",
		New:   func() art.Tree[T, uint64] { return art.NewFloatBinaryTree[T, uint64]() },
		Cmp:   FloatCmp[T],
		ID:    FloatID[T],
		Clone: func(a T) T { return a },
		Show:  func(a T) string { return fmt.Sprintf("%v(%#x)", float64(a), f64bitsOf(a)) },
		Pool: func(r *rng.R, n int) []T {
			out := make([]T, 0, n)
			profile := r.Intn(4)
			for len(out) < n {
				switch profile {
				case 0: // dense ulp window (long shared paths in the encoding)
					base := gen(r)
					for i := 0; i < 2+r.Intn(40); i++ {
						out = append(out, fromBits[T]((base+uint64(i))&mask))
					}
				case 1: // shared high bytes
					hi := gen(r)
					lm := uint64(1)<<(uint(1+r.Intn(2))*8) - 1
					for i := 0; i < 2+r.Intn(30); i++ {
						out = append(out, fromBits[T](((hi&^lm)|(r.U64()&lm))&mask))
					}
				default:
					out = append(out, fromBits[T](gen(r)))
				}
			}
			rng.Shuffle(r, out)
			return out[:n]
		},
		Near: func(r *rng.R, a T) T {
			if r.Chance(1, 8) {
				return fromBits[T](rng.Pick(r, specials))
			}
			return fromBits[T](nearBits(r, f64bitsOf(a), width) & mask)
		},
		Fan: func(r *rng.R) []T {
			bs := fanBits(r, width)
			seenNaN := false
			out := make([]T, 0, len(bs))
			for i := range bs {
				f := fromBits[T](bs[i] & mask)
				if f != f {
					if seenNaN {
						continue
					}
					seenNaN = true
				}
				out = append(out, f)
			}
			return out
		},
		Storable: alwaysStorable[T],
		HasRange: true,
		RangeOK: func(a, b T) (bool, string) {
			if a != a || b != b {
				return false, "nan-bound"
			}
			if a == 0 && b == 0 && math.Signbit(float64(a)) != math.Signbit(float64(b)) {
				return false, "zero-pair"
			}
			return true, ""
		},
		EmptyEnd: func(T) bool { return false },
	}
	k.Universes = func() []Universe[T] {
		fb := func(u uint64) T { return fromBits[T](u) }
		inf := T(math.Inf(1))
		nan := T(math.NaN())
		var zero T
		negZero := -zero
		return []Universe[T]{
			{Name: "specials", Keys: []T{nan, -inf, inf, negZero, zero, 1, -1, fb(1)}},
			{Name: "ulps", Keys: []T{1, fb(f64bitsOf(T(1)) + 1), fb(f64bitsOf(T(1)) - 1), 2, -2, fb(f64bitsOf(T(-2)) + 1), 255, 256}},
		}
	}
	return k
}

func Uint8() *Kind[uint8]     { return unsignedKind[uint8]("uint8", 1) }
func Uint16() *Kind[uint16]   { return unsignedKind[uint16]("uint16", 2) }
func Uint32() *Kind[uint32]   { return unsignedKind[uint32]("uint32", 4) }
func Uint64() *Kind[uint64]   { return unsignedKind[uint64]("uint64", 8) }
func Uint() *Kind[uint]       { return unsignedKind[uint]("uint", 8) }
func Int8() *Kind[int8]       { return signedKind[int8]("int8", 1) }
func Int16() *Kind[int16]     { return signedKind[int16]("int16", 2) }
func Int32() *Kind[int32]     { return signedKind[int32]("int32", 4) }
func Int64() *Kind[int64]     { return signedKind[int64]("int64", 8) }
func Int() *Kind[int]         { return signedKind[int]("int", 8) }
func Float32() *Kind[float32] { return floatKind[float32]("float32", 4) }
func Float64() *Kind[float64] { return floatKind[float64]("float64", 8) }
