// Package kinds holds one adapter per tree kind / key type instantiation:
// constructor, oracle order (written without the library's encoders),
// canonical identity, cloning, and hostile key generators.
package kinds

import (
	art "github.com/Clement-Jean/go-art"

	"verif/internal/ref"
	"verif/internal/rng"
)

type Kind[K any] struct {
	Name   string // e.g. "alpha/string", "uint16", "coll/string/en"
	Family string // alpha | unsigned | signed | float | collation | compound

	New   func() art.Tree[K, uint64]
	Cmp   func(a, b K) int
	ID    func(k K) string
	Clone func(k K) K
	Show  func(k K) string

	// Pool draws a hostile key pool for one history.
	Pool func(r *rng.R, n int) []K
	// Near derives a probe near k (usually absent): truncation, extension,
	// one-unit mutation, neighbour value.
	Near func(r *rng.R, k K) K
	// Fan returns up to 256 keys that differ in exactly one byte position of
	// their transformed form (they all hang under one inner node).
	Fan func(r *rng.R) []K
	// Staircase returns a chain of keys each extending the previous one (a path through
	// dozens of nested inner nodes), with sibling leaves at many levels; nil if not applicable.
	Staircase func(r *rng.R) []K
	// Fan2 returns a two-level fan-out: upper is a family under one node; lower is a second
	// family hanging under the branch of upper[anchor] (so that two wide nodes are stacked).
	Fan2 func(r *rng.R) (upper []K, anchor int, lower []K)
	// Deepen returns a key that shares k's branch under the fan-out node and
	// diverges further down (so that the child under that byte is an inner
	// node when both are stored); nil when the kind cannot do that.
	Deepen func(r *rng.R, k K) K
	// Universes are the purpose-built key sets of the closed exploration.
	Universes func() []Universe[K]

	// Enc is the oracle's transformed key (independent of keys.go); nil when
	// the harness has no independent encoder (collation).
	Enc func(k K) []byte

	// Storable reports whether inserting k keeps the content inside the
	// property's scope (open known findings, collator-equal strings). A
	// non-storable insert is skipped and counted.
	Storable func(m *ref.Map[K], k K) (bool, string)

	// Len: bytes of the key as the caller holds it, where ID is not the key's own bytes (collation)
	Len func(k K) int

	HasRange bool
	// RangeOK: false for the carved-out bound pairs.
	RangeOK func(a, b K) (bool, string)
	// EmptyEnd: alpha trees: an empty end bound means "largest stored key".
	EmptyEnd func(k K) bool

	HasPrefix bool
	// PrefixOf reports whether key k's original bytes start with p.
	PrefixOf func(k, p K) bool
	// PrefixQueries derives prefix arguments from a stored key.
	PrefixQueries func(r *rng.R, k K) []K
	// PrefixArgOK: collation trees: prefix argument inside the property's scope.
	PrefixArgOK func(p K) bool

	// VariantFamily (collation): many strings that share their primary weights
	// pairwise (case variants), nil for the other kinds.
	VariantFamily func(r *rng.R, pairs int) []K

	// SliceKey: K is a slice type (caller buffers matter: C13).
	SliceKey bool
	// Shorten returns k[:n] sharing k's memory (slice keys only, else nil).
	Shorten func(k K, n int) K
	// KeyLen is len(k) for slice keys.
	KeyLen func(k K) int
}

type Universe[K any] struct {
	Name string
	Keys []K
}

// Clones returns a clone of every key (fresh buffers for the tree).
func (k *Kind[K]) Clones(ks []K) []K {
	out := make([]K, len(ks))
	for i := range ks {
		out[i] = k.Clone(ks[i])
	}
	return out
}
