package kinds

import (
	"bytes"
	"fmt"
	"math"
	"strings"

	art "github.com/Clement-Jean/go-art"

	"verif/internal/codec"
	"verif/internal/rng"
)

// Tuple is the compound key type: up to four numeric fields (stored as raw
// 64-bit patterns: value for unsigned, sign-extended for signed, IEEE bits for
// floats) optionally followed by one string field.
type Tuple struct {
	N [4]uint64
	S string
}

type FieldType int

const (
	FU8 FieldType = iota
	FU16
	FU32
	FU64
	FUint
	FI8
	FI16
	FI32
	FI64
	FInt
	FF32
	FF64
	numFieldTypes
)

var fieldNames = []string{"uint8", "uint16", "uint32", "uint64", "uint", "int8", "int16", "int32", "int64", "int", "float32", "float64"}
var fieldWidths = []int{1, 2, 4, 8, 8, 1, 2, 4, 8, 8, 4, 8}

func (f FieldType) String() string { return fieldNames[f] }
func (f FieldType) Width() int     { return fieldWidths[f] }
func (f FieldType) isSigned() bool { return f >= FI8 && f <= FInt }
func (f FieldType) isFloat() bool  { return f == FF32 || f == FF64 }

type Schema struct {
	Fields []FieldType
	Str    bool
}

func (s Schema) String() string {
	var parts []string
	for _, f := range s.Fields {
		parts = append(parts, f.String())
	}
	if s.Str {
		parts = append(parts, "string")
	}
	return strings.Join(parts, ",")
}

func RandomSchema(r *rng.R) Schema {
	n := 1 + r.Intn(4)
	s := Schema{}
	for i := 0; i < n; i++ {
		s.Fields = append(s.Fields, FieldType(r.Intn(int(numFieldTypes))))
	}
	s.Str = r.Chance(1, 2)
	if s.Str && n == 4 && r.Chance(1, 2) {
		s.Fields = s.Fields[:3]
	}
	return s
}

// canon normalises a raw field pattern to the field's width (sign-extended
// for signed, truncated otherwise).
func (f FieldType) canon(u uint64) uint64 {
	switch f {
	case FU8:
		return uint64(uint8(u))
	case FU16:
		return uint64(uint16(u))
	case FU32, FF32:
		return uint64(uint32(u))
	case FI8:
		return uint64(int64(int8(u)))
	case FI16:
		return uint64(int64(int16(u)))
	case FI32:
		return uint64(int64(int32(u)))
	}
	return u
}

func (f FieldType) isNaN(u uint64) bool {
	switch f {
	case FF32:
		x := math.Float32frombits(uint32(u))
		return x != x
	case FF64:
		x := math.Float64frombits(u)
		return x != x
	}
	return false
}

// cmpField: the tuple comparator's per-field order, over typed values.
func (f FieldType) cmp(a, b uint64) int {
	switch {
	case f.isFloat():
		if f == FF32 {
			return FloatCmp(math.Float32frombits(uint32(a)), math.Float32frombits(uint32(b)))
		}
		return FloatCmp(math.Float64frombits(a), math.Float64frombits(b))
	case f.isSigned():
		x, y := int64(a), int64(b)
		if x < y {
			return -1
		} else if x > y {
			return 1
		}
		return 0
	default:
		if a < b {
			return -1
		} else if a > b {
			return 1
		}
		return 0
	}
}

func (f FieldType) show(u uint64) string {
	switch {
	case f == FF32:
		return fmt.Sprintf("%v(%#x)", math.Float32frombits(uint32(u)), uint32(u))
	case f == FF64:
		return fmt.Sprintf("%v(%#x)", math.Float64frombits(u), u)
	case f.isSigned():
		return fmt.Sprintf("%d", int64(u))
	}
	return fmt.Sprintf("%d", u)
}

// ---- codecs ----

func escString(s string) []byte {
	out := make([]byte, 0, len(s)+2)
	for i := 0; i < len(s); i++ {
		if s[i] == 0 {
			out = append(out, 0, 0xFF)
		} else {
			out = append(out, s[i])
		}
	}
	return append(out, 0, 0)
}

func unescString(b []byte) string {
	var out []byte
	for i := 0; i < len(b); i++ {
		if b[i] == 0 {
			if i+1 < len(b) && b[i+1] == 0xFF {
				out = append(out, 0)
				i++
				continue
			}
			break // terminator
		}
		out = append(out, b[i])
	}
	return string(out)
}

// libField encodes one field with the library's own exported codecs.
func libField(f FieldType, u uint64) []byte {
	var b []byte
	switch f {
	case FU8:
		_, b = art.UnsignedBinaryKey[uint8]{}.Transform(uint8(u))
	case FU16:
		_, b = art.UnsignedBinaryKey[uint16]{}.Transform(uint16(u))
	case FU32:
		_, b = art.UnsignedBinaryKey[uint32]{}.Transform(uint32(u))
	case FU64:
		_, b = art.UnsignedBinaryKey[uint64]{}.Transform(u)
	case FUint:
		_, b = art.UnsignedBinaryKey[uint]{}.Transform(uint(u))
	case FI8:
		_, b = art.SignedBinaryKey[int8]{}.Transform(int8(u))
	case FI16:
		_, b = art.SignedBinaryKey[int16]{}.Transform(int16(u))
	case FI32:
		_, b = art.SignedBinaryKey[int32]{}.Transform(int32(u))
	case FI64:
		_, b = art.SignedBinaryKey[int64]{}.Transform(int64(u))
	case FInt:
		_, b = art.SignedBinaryKey[int]{}.Transform(int(u))
	case FF32:
		_, b = art.FloatBinaryKey[float32]{}.Transform(math.Float32frombits(uint32(u)))
	case FF64:
		_, b = art.FloatBinaryKey[float64]{}.Transform(math.Float64frombits(u))
	}
	return b
}

func libRestoreField(f FieldType, b []byte) uint64 {
	switch f {
	case FU8:
		return uint64(art.UnsignedBinaryKey[uint8]{}.Restore(b))
	case FU16:
		return uint64(art.UnsignedBinaryKey[uint16]{}.Restore(b))
	case FU32:
		return uint64(art.UnsignedBinaryKey[uint32]{}.Restore(b))
	case FU64:
		return art.UnsignedBinaryKey[uint64]{}.Restore(b)
	case FUint:
		return uint64(art.UnsignedBinaryKey[uint]{}.Restore(b))
	case FI8:
		return uint64(int64(art.SignedBinaryKey[int8]{}.Restore(b)))
	case FI16:
		return uint64(int64(art.SignedBinaryKey[int16]{}.Restore(b)))
	case FI32:
		return uint64(int64(art.SignedBinaryKey[int32]{}.Restore(b)))
	case FI64:
		return uint64(art.SignedBinaryKey[int64]{}.Restore(b))
	case FInt:
		return uint64(int64(art.SignedBinaryKey[int]{}.Restore(b)))
	case FF32:
		return uint64(math.Float32bits(art.FloatBinaryKey[float32]{}.Restore(b)))
	case FF64:
		return math.Float64bits(art.FloatBinaryKey[float64]{}.Restore(b))
	}
	return 0
}

// indepField encodes one field without touching keys.go.
func indepField(f FieldType, u uint64) []byte {
	switch {
	case f == FF32:
		return codec.BE(uint64(codec.Float32Rank(math.Float32frombits(uint32(u)))), 4)
	case f == FF64:
		return codec.BE(codec.Float64Rank(math.Float64frombits(u)), 8)
	case f.isSigned():
		return codec.Signed(int64(u), f.Width())
	}
	return codec.Unsigned(u, f.Width())
}

func indepRestoreField(f FieldType, b []byte) uint64 {
	u := codec.FromBE(b)
	switch {
	case f == FF32:
		r := uint32(u)
		switch {
		case r == 0:
			return uint64(math.Float32bits(float32(math.NaN())))
		case r>>31 == 1 && r != 1<<31: // produced by (bits|1<<31)+1, bits>=0
			return uint64((r - 1) &^ (1 << 31))
		default: // produced by ^bits+1 with the sign bit set in bits
			return uint64(^(r - 1))
		}
	case f == FF64:
		switch {
		case u == 0:
			return math.Float64bits(math.NaN())
		case u>>63 == 1 && u != 1<<63:
			return (u - 1) &^ (1 << 63)
		default:
			return ^(u - 1)
		}
	case f.isSigned():
		w := uint(f.Width()) * 8
		v := u ^ (uint64(1) << (w - 1))
		return f.canon(v)
	}
	return u
}

// TupleCodec implements art.BinaryComparableKey[Tuple] for one schema.
type TupleCodec struct {
	Schema Schema
	Lib    bool // compose the library's own encoders (else the independent ones)
	// InPlace: (Lib only) the first field's encoding as returned by the library is
	// the buffer the following fields are appended to, as hand-written codecs do
	InPlace bool
}

func (c TupleCodec) Transform(t Tuple) ([]byte, []byte) {
	var b []byte
	for i, f := range c.Schema.Fields {
		switch {
		case c.Lib && c.InPlace && i == 0:
			b = libField(f, t.N[i])
		case c.Lib:
			b = append(b, libField(f, t.N[i])...)
		default:
			b = append(b, indepField(f, t.N[i])...)
		}
	}
	if c.Schema.Str {
		b = append(b, escString(t.S)...)
	}
	return b, b
}

func (c TupleCodec) Restore(b []byte) Tuple {
	var t Tuple
	off := 0
	for i, f := range c.Schema.Fields {
		w := f.Width()
		if c.Lib {
			t.N[i] = libRestoreField(f, b[off:off+w])
		} else {
			t.N[i] = indepRestoreField(f, b[off:off+w])
		}
		off += w
	}
	if c.Schema.Str {
		t.S = unescString(b[off:])
	}
	return t
}

// CompoundKind builds the adapter for one schema and codec variant.
func CompoundKind(s Schema, lib bool) *Kind[Tuple] { return CompoundKindV(s, lib, false) }

// CompoundKindV: inPlace selects the library-composed codec that appends onto the
// first field's encoding.
func CompoundKindV(s Schema, lib, inPlace bool) *Kind[Tuple] {
	cd := TupleCodec{Schema: s, Lib: lib, InPlace: lib && inPlace}
	variant := "indep"
	if lib {
		variant = "lib"
	}
	if cd.InPlace {
		variant = "lib-inplace"
	}
	canonT := func(t Tuple) Tuple {
		var c Tuple
		for i, f := range s.Fields {
			c.N[i] = f.canon(t.N[i])
		}
		if s.Str {
			c.S = t.S
		}
		return c
	}
	cmp := func(a, b Tuple) int {
		for i, f := range s.Fields {
			if c := f.cmp(a.N[i], b.N[i]); c != 0 {
				return c
			}
		}
		if s.Str {
			return strings.Compare(a.S, b.S)
		}
		return 0
	}
	id := func(t Tuple) string {
		var sb strings.Builder
		for i, f := range s.Fields {
			if f.isNaN(t.N[i]) {
				sb.WriteString("NaN|")
			} else {
				fmt.Fprintf(&sb, "%x|", f.canon(t.N[i]))
			}
		}
		if s.Str {
			sb.WriteString(t.S)
		}
		return sb.String()
	}
	genField := func(r *rng.R, f FieldType, n int) []uint64 {
		var out []uint64
		if f.isFloat() {
			sp := floatSpecialBits(f.Width())
			for len(out) < n {
				switch r.Intn(3) {
				case 0:
					out = append(out, rng.Pick(r, sp))
				case 1:
					out = append(out, rng.Pick(r, sp)+uint64(r.Intn(5))-2)
				default:
					out = append(out, r.U64())
				}
			}
		} else {
			out = bitPool(r, n, f.Width())
		}
		for i := range out {
			out[i] = f.canon(out[i])
		}
		return out
	}
	k := &Kind[Tuple]{
		Name: "compound/" + variant + "/" + s.String(), Family: "compound",
		New:   func() art.Tree[Tuple, uint64] { return art.NewCompoundTree[Tuple, uint64](cd) },
		Cmp:   cmp,
		ID:    id,
		Clone: func(t Tuple) Tuple { return t },
		Show: func(t Tuple) string {
			var parts []string
			for i, f := range s.Fields {
				parts = append(parts, f.show(t.N[i]))
			}
			if s.Str {
				parts = append(parts, fmt.Sprintf("%q", t.S))
			}
			return "(" + strings.Join(parts, ",") + ")"
		},
		Pool: func(r *rng.R, n int) []Tuple {
			// few distinct values in early fields, more in later ones, so that
			// tuples differ in early, middle and last fields alike
			vals := make([][]uint64, len(s.Fields))
			for i, f := range s.Fields {
				cnt := 1 + r.Intn(3)
				if i == len(s.Fields)-1 && !s.Str {
					cnt = 4 + r.Intn(60)
				}
				if r.Chance(1, 5) {
					cnt = 4 + r.Intn(20)
				}
				vals[i] = genField(r, f, cnt)
			}
			var strs []string
			if s.Str {
				for _, b := range BytePool(r, 4+r.Intn(40)) {
					strs = append(strs, string(b))
				}
			}
			out := make([]Tuple, 0, n)
			for len(out) < n {
				var t Tuple
				for i := range s.Fields {
					t.N[i] = rng.Pick(r, vals[i])
				}
				if s.Str {
					t.S = rng.Pick(r, strs)
				}
				out = append(out, t)
			}
			return out
		},
		Near: func(r *rng.R, t Tuple) Tuple {
			c := t
			nf := len(s.Fields)
			if s.Str && r.Chance(1, 2) {
				c.S = string(ByteNear(r, []byte(t.S)))
				return c
			}
			i := r.Intn(nf)
			c.N[i] = s.Fields[i].canon(nearBits(r, t.N[i], s.Fields[i].Width()))
			return c
		},
		Fan: func(r *rng.R) []Tuple {
			var base Tuple
			for i, f := range s.Fields {
				base.N[i] = genField(r, f, 1)[0]
			}
			if s.Str {
				base.S = string(fromAlphabet(r, tinyAlphabet, r.Intn(3)))
			}
			fi := r.Intn(len(s.Fields))
			f := s.Fields[fi]
			pos := uint(r.Intn(f.Width())) * 8
			seen := map[string]bool{}
			var out []Tuple
			for b := 0; b < 256; b++ {
				t := base
				t.N[fi] = f.canon((base.N[fi] &^ (uint64(0xFF) << pos)) | uint64(b)<<pos)
				if !seen[id(t)] {
					seen[id(t)] = true
					out = append(out, t)
				}
			}
			return out
		},
		Deepen: func(r *rng.R, t Tuple) Tuple {
			c := t
			if s.Str {
				c.S = t.S + string(fromAlphabet(r, smallAlphabet, 1+r.Intn(2)))
				return c
			}
			last := len(s.Fields) - 1
			c.N[last] = s.Fields[last].canon(t.N[last] ^ 1)
			return c
		},
		Enc:      func(t Tuple) []byte { b, _ := cd.Transform(t); return b },
		Storable: alwaysStorable[Tuple],
		HasRange: true,
		RangeOK:  func(a, b Tuple) (bool, string) { return true, "" },
		EmptyEnd: func(Tuple) bool { return false },
	}
	k.Universes = func() []Universe[Tuple] {
		r := rng.New(rng.HashString(k.Name), 77)
		ts := k.Pool(r, 40)
		u := Universe[Tuple]{Name: "pool8"}
		seen := map[string]bool{}
		for _, t := range ts {
			t = canonT(t)
			if !seen[id(t)] && len(u.Keys) < 7 {
				seen[id(t)] = true
				u.Keys = append(u.Keys, t)
			}
		}
		return []Universe[Tuple]{u}
	}
	return k
}

// CodecContract checks, on the harness's own generated tuples, that a codec
// is injective, prefix-free and order-preserving against the tuple
// comparator. It returns a description of the first failure, or "".
func CodecContract(k *Kind[Tuple], r *rng.R, n int) string {
	ts := k.Pool(r, n)
	for i := 0; i+1 < len(ts); i++ {
		a, b := ts[i], ts[i+1]
		ea, eb := k.Enc(a), k.Enc(b)
		c := k.Cmp(a, b)
		bc := bytes.Compare(ea, eb)
		if sign(c) != sign(bc) {
			return fmt.Sprintf("order: cmp(%s,%s)=%d but bytes.Compare=%d", k.Show(a), k.Show(b), c, bc)
		}
		if c != 0 && (bytes.HasPrefix(ea, eb) || bytes.HasPrefix(eb, ea)) {
			return fmt.Sprintf("prefix-free: %s vs %s", k.Show(a), k.Show(b))
		}
	}
	return ""
}
