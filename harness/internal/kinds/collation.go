package kinds

import (
	"bytes"
	"fmt"
	"strings"
	"unicode"

	art "github.com/Clement-Jean/go-art"
	"golang.org/x/text/collate"
	"golang.org/x/text/language"

	"verif/internal/ref"
	"verif/internal/rng"
)

// CollCfg is one collator configuration. The tree and the oracle each get
// their own *collate.Collator built from it (collators are stateful).
type CollCfg struct {
	Name    string
	Tag     string
	Opts    []collate.Option
	Numeric bool
	// LevelDropping: options that drop a comparison level (IgnoreCase,
	// IgnoreDiacritics, Loose): strings equal under the collator are then
	// not co-stored (Storable).
	LevelDropping bool
}

func (c CollCfg) NewCollator() *collate.Collator {
	return collate.New(language.MustParse(c.Tag), c.Opts...)
}

func CollationConfigs() []CollCfg {
	var out []CollCfg
	for _, tag := range []string{"und", "en", "de", "sv", "es", "fr-CA", "da", "ja", "zh"} {
		out = append(out, CollCfg{Name: tag, Tag: tag})
		out = append(out, CollCfg{Name: tag + "+numeric", Tag: tag, Opts: []collate.Option{collate.Numeric}, Numeric: true})
	}
	out = append(out,
		CollCfg{Name: "und+ignorecase", Tag: "und", Opts: []collate.Option{collate.IgnoreCase}, LevelDropping: true},
		CollCfg{Name: "und+ignorediacritics", Tag: "und", Opts: []collate.Option{collate.IgnoreDiacritics}, LevelDropping: true},
		CollCfg{Name: "en+loose", Tag: "en", Opts: []collate.Option{collate.Loose}, LevelDropping: true},
		CollCfg{Name: "und+ignorewidth", Tag: "und", Opts: []collate.Option{collate.IgnoreWidth}},
		CollCfg{Name: "de+force", Tag: "de", Opts: []collate.Option{collate.Force}},
		CollCfg{Name: "sv+ignorecase+numeric", Tag: "sv", Opts: []collate.Option{collate.IgnoreCase, collate.Numeric}, Numeric: true, LevelDropping: true},
	)
	return out
}

func CollationConfig(name string) CollCfg {
	for _, c := range CollationConfigs() {
		if c.Name == name {
			return c
		}
	}
	panic("unknown collation config " + name)
}

type collChars interface{ string | []byte }

var (
	collLatin   = []rune("aAbBcCdDeEoOuUzZsS")
	collAccents = []rune("áÁàÀäÄâåÅéÉèêëñÑöÖüÜçÇßæøœ")
	collDigits  = []rune("0123456789")
	collGreek   = []rune("αβγδΑΒΓΔωΩ")
	collCyr     = []rune("абвгдАБВГДяЯ")
	collCJK     = []rune("一二三中文字漢日本語あいうアイウ")
	collEmoji   = []rune("😀😁🚀")
	collPunct   = []rune(" -.")
	collASCII   = []rune("abcdefghijklmnopqrstuvwxyzABCDEFGHIJKLMNOPQRSTUVWXYZ")
	collAll     = func() [][]rune {
		return [][]rune{collLatin, collAccents, collDigits, collGreek, collCyr, collCJK, collEmoji, collPunct}
	}()
)

// collFanRanges: code point ranges with a large fan-out under one sort-key node.
var collFanRanges = [][2]rune{{0x4E00, 0x4EFF}, {0x4E00, 0x4EFF}, {0x1200, 0x12FF}, {0x3041, 0x3096}, {0x3B1, 0x3C9}, {0xA000, 0xA0FF}}

var caseAccentVariants = map[rune][]rune{
	'a': []rune("aAáÁàÀäÄâåÅ"), 'e': []rune("eEéÉèêë"), 'o': []rune("oOöÖø"), 'u': []rune("uUüÜ"),
	'n': []rune("nNñÑ"), 'c': []rune("cCçÇ"), 's': []rune("sSß"), 'r': []rune("rR"), 'm': []rune("mM"),
}

func collWord(r *rng.R, n int) []rune {
	out := make([]rune, n)
	mode := r.Intn(4)
	for i := range out {
		var al []rune
		switch mode {
		case 0:
			al = collLatin
		case 1:
			al = rng.Pick(r, [][]rune{collLatin, collAccents})
		case 2:
			al = rng.Pick(r, collAll)
		default:
			al = rng.Pick(r, [][]rune{collLatin, collDigits})
		}
		out[i] = al[r.Intn(len(al))]
	}
	return out
}

// CollPool: multi-script strings with clusters that are equal at primary
// level (case / accent variants), digit runs, 4-byte characters and long
// shared prefixes.
func CollPool(r *rng.R, n int) []string {
	var out []string
	for len(out) < n {
		switch r.Intn(6) {
		case 0:
			out = append(out, string(collWord(r, r.Intn(7))))
		case 1: // case/accent cluster around a base word
			bases := []string{"resume", "cano", "rose", "mur", "sens", "aa", "ana", "e"}
			base := []rune(rng.Pick(r, bases))
			for i := 0; i < 2+r.Intn(8); i++ {
				w := append([]rune{}, base...)
				for j := range w {
					if vs, ok := caseAccentVariants[w[j]]; ok && r.Chance(1, 2) {
						w[j] = vs[r.Intn(len(vs))]
					}
				}
				out = append(out, string(w))
			}
		case 2: // digit runs
			ds := []string{"1", "9", "10", "11", "100", "2", "02", "002", "20", "19", "1a", "a1", "a10", "a9", "a09"}
			p := string(collWord(r, r.Intn(2)))
			for i := 0; i < 2+r.Intn(6); i++ {
				out = append(out, p+rng.Pick(r, ds))
			}
		case 3: // long shared prefix (>= 5 characters: optimistic paths in the sort key)
			p := string(collWord(r, 5+r.Intn(6)))
			for i := 0; i < 2+r.Intn(8); i++ {
				out = append(out, p+string(collWord(r, r.Intn(4))))
			}
		case 4: // keys extending one another
			cur := ""
			for i := 0; i < 1+r.Intn(5); i++ {
				cur += string(collWord(r, 1+r.Intn(3)))
				out = append(out, cur)
			}
			if r.Chance(1, 2) { // a fan-out cluster: many strings under one sort-key node
				fam := rng.Pick(r, collFanRanges)
				p := string(collWord(r, r.Intn(3)))
				cnt := rng.Pick(r, fanCounts)
				start := r.Intn(int(fam[1]-fam[0]) + 1)
				for i := 0; i < cnt && i <= int(fam[1]-fam[0]); i++ {
					c := fam[0] + rune((start+i)%(int(fam[1]-fam[0])+1))
					out = append(out, p+string(c))
				}
			}
		default:
			al := rng.Pick(r, collAll)
			out = append(out, string(al[r.Intn(len(al))]))
			if r.Chance(1, 12) {
				// long texts differing at the very end (sort keys of several kB up to > 64 kB)
				n := rng.Pick(r, []int{900, 1500, 14000})
				base := strings.Repeat(string(collWord(r, 10)), n/10)
				out = append(out, base+"a", base+"A", base+"b", base[:len(base)/2]+"z")
			}
		}
		if r.Chance(1, 50) {
			out = append(out, "")
		}
	}
	rng.Shuffle(r, out)
	return out[:n]
}

func collNear(r *rng.R, s string) string {
	w := []rune(s)
	if r.Chance(1, 10) {
		// a different string the collator cannot tell from s (ignorable code point): never
		// co-stored (Storable), but a legitimate absent probe
		return s + string(rng.Pick(r, []rune{0x200D, 0x00AD, 0x200B}))
	}
	switch r.Intn(6) {
	case 0:
		if len(w) == 0 {
			return "a"
		}
		return string(w[:r.Intn(len(w))])
	case 1:
		return s + string(collWord(r, 1+r.Intn(2)))
	case 2, 3: // flip case / accent of one letter
		if len(w) == 0 {
			return "A"
		}
		i := r.Intn(len(w))
		lo := unicode.ToLower(w[i])
		if vs, ok := caseAccentVariants[lo]; ok {
			w[i] = vs[r.Intn(len(vs))]
		} else if unicode.IsUpper(w[i]) {
			w[i] = unicode.ToLower(w[i])
		} else {
			w[i] = unicode.ToUpper(w[i])
		}
		return string(w)
	case 4:
		if len(w) == 0 {
			return "0"
		}
		i := r.Intn(len(w))
		al := rng.Pick(r, collAll)
		w[i] = al[r.Intn(len(al))]
		return string(w)
	default:
		if len(w) > 1 {
			return string(w[:len(w)-1])
		}
		return ""
	}
}

// collOracle is the independent collator instance of one kind.
type collOracle struct {
	c     *collate.Collator
	buf   collate.Buffer
	cache map[string][]byte
}

func (o *collOracle) key(s string) []byte {
	if k, ok := o.cache[s]; ok {
		return k
	}
	o.buf.Reset()
	k := append([]byte{}, o.c.KeyFromString(&o.buf, s)...)
	if len(o.cache) > 1<<16 {
		o.cache = map[string][]byte{}
	}
	o.cache[s] = k
	return k
}

func sign(x int) int {
	switch {
	case x < 0:
		return -1
	case x > 0:
		return 1
	}
	return 0
}

type collConv[K any] struct {
	to   func(string) K
	from func(K) string
}

func collKindOf[K any](name string, cfg CollCfg, conv collConv[K], mk func() art.Tree[K, uint64], slice bool) *Kind[K] {
	o := &collOracle{c: cfg.NewCollator(), cache: map[string][]byte{}}
	k := &Kind[K]{
		Name: name, Family: "collation",
		New: mk,
		Cmp: func(a, b K) int {
			sa, sb := conv.from(a), conv.from(b)
			if c := bytes.Compare(o.key(sa), o.key(sb)); c != 0 {
				return c
			}
			return strings.Compare(sa, sb)
		},
		// identity is the collator's: strings it cannot tell apart (another normal form, an
		// appended ignorable, another case under IgnoreCase) are one key whose first
		// spelling stays stored (fix: commit "collation trees: collator-equal spellings")
		ID:    func(a K) string { return string(o.key(conv.from(a))) },
		Len:   func(a K) int { return len(conv.from(a)) },
		Clone: func(a K) K { return conv.to(conv.from(a)) },
		Show:  func(a K) string { return fmt.Sprintf("%q", conv.from(a)) },
		Pool: func(r *rng.R, n int) []K {
			ss := CollPool(r, n)
			out := make([]K, len(ss))
			for i := range ss {
				out[i] = conv.to(ss[i])
			}
			return out
		},
		Near: func(r *rng.R, a K) K { return conv.to(collNear(r, conv.from(a))) },
		Fan: func(r *rng.R) []K {
			// scripts whose primary weights share their leading bytes and differ in
			// the next one: the strings below hang under one inner node of the sort-key
			// index (measured with x/text: 256-way for U+4E00.., 206-way for Ethiopic,
			// 48 for kana, 24 for Greek)
			p := string(collWord(r, rng.Pick(r, []int{0, 1, 4, 6})))
			fam := rng.Pick(r, collFanRanges)
			var out []K
			for c := fam[0]; c <= fam[1]; c++ {
				out = append(out, conv.to(p+string(c)))
			}
			return out
		},
		Fan2: func(r *rng.R) ([]K, int, []K) {
			p := string(collWord(r, rng.Pick(r, []int{0, 1, 4})))
			b0 := 40 + r.Intn(180)
			var upper, lower []K
			for c := rune(0x4E00); c <= 0x4EFF; c++ {
				upper = append(upper, conv.to(p+string(c)))
				lower = append(lower, conv.to(p+string(rune(0x4E00+b0))+string(c)))
			}
			return upper, b0, lower
		},
		Deepen:   func(r *rng.R, a K) K { return conv.to(conv.from(a) + string(collWord(r, 1+r.Intn(2)))) },
		HasRange: false, // carved out of C03
		EmptyEnd: func(K) bool { return false },
		SliceKey: slice,
	}
	k.Storable = func(m *ref.Map[K], a K) (bool, string) {
		if m.Has(a) {
			return true, ""
		}
		sa := conv.from(a)
		ka := o.key(sa)
		i := m.LowerBound(a)
		for _, j := range []int{i - 1, i} {
			if j < 0 || j >= m.Len() {
				continue
			}
			sb := conv.from(m.At(j).Key)
			kb := o.key(sb)
			if bytes.Equal(ka, kb) {
				return false, "collator-equal"
			}
			// the two x/text answers must agree, else the oracle is ambiguous
			if sign(o.c.CompareString(sa, sb)) != sign(bytes.Compare(ka, kb)) {
				return false, "oracle-ambiguous"
			}
		}
		return true, ""
	}
	// Prefix scope (C04): ASCII letters only (no contractions, no
	// ignorables; digits left out so that numeric collators stay in scope).
	k.HasPrefix = true
	k.PrefixOf = func(a, p K) bool { return strings.HasPrefix(conv.from(a), conv.from(p)) }
	k.PrefixArgOK = func(p K) bool {
		for _, c := range conv.from(p) {
			if !InPrefixScope(c) {
				return false
			}
		}
		return true
	}
	k.PrefixQueries = func(r *rng.R, a K) []K {
		w := []rune(conv.from(a))
		var out []K
		for _, c := range []int{0, 1, len(w) / 2, len(w) - 1, len(w), 2, 3, 4, 5, 6} {
			if c >= 0 && c <= len(w) {
				out = append(out, conv.to(string(w[:c])))
			}
		}
		out = append(out, conv.to(string(w)+"a"), conv.to(string(w)+"Z"), conv.to(string(w)+"中"))
		if len(w) > 0 {
			w1 := append([]rune{}, w...)
			i := r.Intn(len(w1))
			if w1[i] < 0x80 {
				w1[i] ^= 0x20 // flip ASCII case
			} else {
				w1[i]++
			}
			out = append(out, conv.to(string(w1)))
			w2 := append([]rune{}, w...)
			w2[len(w2)-1] = 'q'
			out = append(out, conv.to(string(w2)))
		}
		return out
	}
	k.VariantFamily = func(r *rng.R, pairs int) []K {
		stem := []string{"a", "b", "ab", "role"}[r.Intn(4)]
		var out []K
		for i := 0; i < pairs; i++ {
			suffix := fmt.Sprintf("%03x", i)
			out = append(out, conv.to(stem+suffix), conv.to(strings.ToUpper(stem)+suffix))
		}
		return out
	}
	k.Universes = func() []Universe[K] {
		mk := func(name string, ss ...string) Universe[K] {
			u := Universe[K]{Name: name}
			for _, s := range ss {
				u.Keys = append(u.Keys, conv.to(s))
			}
			return u
		}
		return []Universe[K]{
			mk("case-accent", "a", "A", "á", "ab", "b", "", "Ab", "áb"),
			mk("shared-prefix", "resume", "résumé", "Resume", "resumes", "resum", "resumé", "rés", "r"),
			mk("digits", "1", "9", "10", "100", "a1", "a10", "a9", "a"),
		}
	}
	return k
}

// InPrefixScope: characters without contractions or ignorables under the
// root/en collators: ASCII letters, basic Greek letters, CJK unified
// ideographs U+4E00..U+4FFF (3-byte implicit primary weights).
func InPrefixScope(c rune) bool {
	return c >= 'a' && c <= 'z' || c >= 'A' && c <= 'Z' || c >= 0x3B1 && c <= 0x3C9 && c != 0x3C2 || c >= 0x391 && c <= 0x3A9 && c != 0x3A2 || c >= 0x4E00 && c <= 0x4FFF
}

var collScopeHan = []rune("中国人文字漢日本語一二三")

// CollPrefixPool draws contents inside C04's scope for collation trees:
// ASCII letters, Greek letters and Han ideographs, with shared prefixes and
// case variants.
func CollPrefixPool(r *rng.R, n int) []string {
	var out []string
	mode := r.Intn(4)
	word := func(n int) string {
		b := make([]rune, n)
		al := collASCII
		if r.Chance(1, 2) {
			al = []rune("abAB")
		}
		for i := range b {
			switch {
			case mode == 1 && r.Chance(1, 2):
				b[i] = collScopeHan[r.Intn(len(collScopeHan))]
			case mode == 2 && r.Chance(1, 3):
				b[i] = rune(0x3B1 + r.Intn(17))
			case mode == 3 && r.Chance(1, 4):
				b[i] = rune(0x4E00 + r.Intn(0x200))
			default:
				b[i] = al[r.Intn(len(al))]
			}
		}
		return string(b)
	}
	for len(out) < n {
		switch r.Intn(3) {
		case 0:
			out = append(out, word(r.Intn(8)))
		case 1:
			p := word(3 + r.Intn(8))
			for i := 0; i < 2+r.Intn(8); i++ {
				out = append(out, p+word(r.Intn(4)))
			}
		default:
			p := word(r.Intn(7))
			cnt := rng.Pick(r, []int{5, 17, 49, 52})
			for i := 0; i < cnt; i++ {
				out = append(out, p+string(collASCII[i%len(collASCII)])+word(r.Intn(2)))
			}
		}
	}
	rng.Shuffle(r, out)
	return out[:n]
}

func collTreeChars[K collChars](cfg CollCfg) func() art.Tree[K, uint64] {
	return func() art.Tree[K, uint64] {
		if cfg.Tag == "" {
			return art.NewCollationSortedTree[K, uint64]()
		}
		return art.NewCollationSortedTree[K, uint64](art.WithCollator[K, uint64](cfg.NewCollator()))
	}
}

func CollString(cfg CollCfg) *Kind[string] {
	return collKindOf[string]("coll/string/"+cfg.Name, cfg,
		collConv[string]{to: func(s string) string { return s }, from: func(s string) string { return s }},
		collTreeChars[string](cfg), false)
}

func CollBytes(cfg CollCfg) *Kind[[]byte] {
	k := collKindOf[[]byte]("coll/bytes/"+cfg.Name, cfg,
		collConv[[]byte]{to: func(s string) []byte { return []byte(s) }, from: func(b []byte) string { return string(b) }},
		collTreeChars[[]byte](cfg), true)
	k.Shorten = func(b []byte, n int) []byte { return b[:n] }
	k.KeyLen = func(b []byte) int { return len(b) }
	return k
}

// CollStringDefault: a string-keyed collation tree created without any option
// (the library's own default collator object).
func CollStringDefault() *Kind[string] {
	cfg := CollCfg{Name: "default", Tag: "und"}
	return collKindOf[string]("coll/string/default", cfg,
		collConv[string]{to: func(s string) string { return s }, from: func(s string) string { return s }},
		func() art.Tree[string, uint64] { return art.NewCollationSortedTree[string, uint64]() }, false)
}

// CollRunes: WithCollator does not type-check for []rune, so rune-slice trees
// always run with the library's default (root) collator.
func CollRunes() *Kind[[]rune] {
	cfg := CollCfg{Name: "default", Tag: "und"}
	return collKindOf[[]rune]("coll/runes/default", cfg,
		collConv[[]rune]{to: func(s string) []rune { return []rune(s) }, from: func(r []rune) string { return string(r) }},
		func() art.Tree[[]rune, uint64] { return art.NewCollationSortedTree[[]rune, uint64]() }, true)
}
