package kinds

import (
	"bytes"
	"fmt"
	"sort"

	art "github.com/Clement-Jean/go-art"

	"verif/internal/ref"
	"verif/internal/rng"
)

type chars interface{ string | []byte }

var (
	tinyAlphabet     = []byte{'a', 'b'}
	smallAlphabet    = []byte{'a', 'b', 'c', 'x', 'y', 'z', '0', '1'}
	boundaryAlphabet = []byte{0x00, 0x01, 0x7F, 0x80, 0xFE, 0xFF}
	pathLens         = []int{8, 9, 10, 11, 12, 13, 20, 40}
	fanCounts        = []int{3, 4, 5, 12, 13, 16, 17, 37, 38, 48, 49, 60, 255, 256}
)

func fromAlphabet(r *rng.R, al []byte, n int) []byte {
	b := make([]byte, n)
	for i := range b {
		b[i] = al[r.Intn(len(al))]
	}
	return b
}

func cat(parts ...[]byte) []byte {
	var out []byte
	for _, p := range parts {
		out = append(out, p...)
	}
	if out == nil {
		out = []byte{}
	}
	return out
}

// BytePool is the hostile byte-string generator shared by alpha and (through
// string fields) compound kinds.
func BytePool(r *rng.R, n int) [][]byte {
	var out [][]byte
	add := func(b []byte) { out = append(out, b) }
	profile := r.Intn(8)
	for len(out) < n {
		p := profile
		if profile == 6 {
			p = r.Intn(6)
		}
		if profile == 7 {
			// staircase: each key extends the previous one by a byte (dozens of nested inner nodes),
			// with a sibling leaf at many levels
			cur := fromAlphabet(r, smallAlphabet, r.Intn(3))
			steps := 34 + r.Intn(30)
			for i := 0; i < steps; i++ {
				cur = cat(cur, []byte{smallAlphabet[r.Intn(len(smallAlphabet))]})
				add(cur)
				if r.Chance(1, 3) {
					add(cat(cur, []byte{'~'}, fromAlphabet(r, tinyAlphabet, r.Intn(2))))
				}
			}
			continue
		}
		switch p {
		case 0: // tiny alphabet, many shared prefixes
			add(fromAlphabet(r, tinyAlphabet, r.Intn(9)))
		case 1: // boundary bytes
			add(fromAlphabet(r, boundaryAlphabet, r.Intn(7)))
		case 2: // long shared paths around the inline limit
			np := 1 + r.Intn(3)
			var ps [][]byte
			for i := 0; i < np; i++ {
				pl := rng.Pick(r, pathLens)
				if r.Chance(1, 12) {
					pl = rng.Pick(r, []int{95, 130, 300}) // paths longer than a whole node
				}
				ps = append(ps, fromAlphabet(r, tinyAlphabet, pl))
			}
			k := 2 + r.Intn(12)
			for i := 0; i < k; i++ {
				add(cat(rng.Pick(r, ps), fromAlphabet(r, smallAlphabet, r.Intn(5))))
			}
		case 3: // fan-out family below a path
			pl := rng.Pick(r, []int{0, 1, 3, 9, 10, 11, 15})
			P := fromAlphabet(r, smallAlphabet, pl)
			cnt := rng.Pick(r, fanCounts)
			start := r.Intn(256)
			tail := r.Intn(3)
			for i := 0; i < cnt; i++ {
				b := byte(start + i)
				add(cat(P, []byte{b}, fromAlphabet(r, tinyAlphabet, tail)))
				if r.Chance(1, 4) { // make the child an inner node too
					add(cat(P, []byte{b}, fromAlphabet(r, smallAlphabet, 1+tail)))
				}
			}
		case 4: // random bytes
			add(r.Bytes(r.Intn(13)))
		case 5: // keys extending one another (never by 0x00 alone: see Storable)
			if r.Chance(1, 6) {
				// staircase: each key extends the previous one by a byte (a path of dozens of nested inner nodes)
				cur := fromAlphabet(r, smallAlphabet, r.Intn(3))
				steps := 34 + r.Intn(30)
				for i := 0; i < steps; i++ {
					cur = cat(cur, []byte{smallAlphabet[r.Intn(len(smallAlphabet))]})
					add(cur)
					if r.Chance(1, 3) {
						add(cat(cur, []byte{'~'}, fromAlphabet(r, tinyAlphabet, r.Intn(2)))) // a sibling leaf at every level
					}
				}
				continue
			}
			if r.Chance(1, 10) {
				// very long keys sharing almost everything
				base := fromAlphabet(r, smallAlphabet, rng.Pick(r, []int{900, 1500, 5000, 70000}))
				for i := 0; i < 3; i++ {
					add(cat(base, fromAlphabet(r, smallAlphabet, 1+r.Intn(3))))
				}
				add(cat(base[:len(base)/2], []byte("!x")))
				continue
			}
			base := fromAlphabet(r, smallAlphabet, 1+r.Intn(4))
			cur := base
			for i := 0; i < 1+r.Intn(6); i++ {
				add(cur)
				cur = cat(cur, fromAlphabet(r, smallAlphabet, 1+r.Intn(12)))
			}
		}
		if r.Chance(1, 40) {
			add([]byte{})
		}
	}
	rng.Shuffle(r, out)
	return out[:n]
}

// ByteNear derives a probe near b.
func ByteNear(r *rng.R, b []byte) []byte {
	switch r.Intn(8) {
	case 0: // truncation
		if len(b) == 0 {
			return []byte{}
		}
		return append([]byte{}, b[:r.Intn(len(b))]...)
	case 1: // extension
		return cat(b, fromAlphabet(r, smallAlphabet, 1+r.Intn(3)))
	case 2: // extension by a boundary byte
		return cat(b, []byte{rng.Pick(r, boundaryAlphabet)})
	case 3, 4: // one-byte mutation
		if len(b) == 0 {
			return []byte{rng.Pick(r, boundaryAlphabet)}
		}
		c := append([]byte{}, b...)
		i := r.Intn(len(c))
		if len(c) > 10 && r.Chance(1, 2) { // around the inline limit
			i = 8 + r.Intn(min(5, len(c)-8))
		}
		c[i] ^= byte(1 << r.Intn(8))
		return c
	case 5: // truncation right around the inline limit
		for _, l := range []int{12, 11, 10, 9} {
			if len(b) > l && r.Chance(1, 2) {
				return append([]byte{}, b[:l]...)
			}
		}
		if len(b) > 1 {
			return append([]byte{}, b[:len(b)-1]...)
		}
		return []byte{}
	case 6: // last byte +-1
		if len(b) == 0 {
			return []byte{0x01}
		}
		c := append([]byte{}, b...)
		if r.Chance(1, 2) {
			c[len(c)-1]++
		} else {
			c[len(c)-1]--
		}
		return c
	default:
		return cat(b[:len(b)/2], fromAlphabet(r, tinyAlphabet, 1+r.Intn(3)))
	}
}

// NulFree reports whether storing b next to the model's keys keeps the set
// {k+0x00} prefix-free (open known finding C01 map/nul-extends-stored-key).
func nulFree[K chars](m *ref.Map[K], k K) (bool, string) {
	b := []byte(k)
	// a stored proper prefix a of b with b[len(a)] == 0
	for i := 0; i < len(b); i++ {
		if b[i] == 0 && m.Has(K(b[:i])) {
			return false, "nul-extends-stored-key"
		}
	}
	// a stored key that starts with b+0x00
	probe := K(cat(b, []byte{0}))
	i := m.LowerBound(probe)
	if i < m.Len() && bytes.HasPrefix([]byte(m.At(i).Key), []byte(probe)) {
		return false, "nul-extends-stored-key"
	}
	return true, ""
}

func alphaKind[K chars](name string, slice bool) *Kind[K] {
	k := &Kind[K]{
		Name:   name,
		Family: "alpha",
		New:    func() art.Tree[K, uint64] { return art.NewAlphaSortedTree[K, uint64]() },
		Cmp:    func(a, b K) int { return bytes.Compare([]byte(a), []byte(b)) },
		ID:     func(a K) string { return string(a) },
		Clone:  func(a K) K { return K(append([]byte{}, []byte(a)...)) },
		Show:   func(a K) string { return fmt.Sprintf("%q", []byte(a)) },
		Pool: func(r *rng.R, n int) []K {
			bs := BytePool(r, n)
			out := make([]K, len(bs))
			for i := range bs {
				out[i] = K(bs[i])
			}
			return out
		},
		Near: func(r *rng.R, a K) K { return K(ByteNear(r, []byte(a))) },
		Fan: func(r *rng.R) []K {
			P := fromAlphabet(r, smallAlphabet, rng.Pick(r, []int{0, 2, 9, 10, 11, 14}))
			tail := fromAlphabet(r, tinyAlphabet, r.Intn(3))
			out := make([]K, 0, 256)
			for b := 0; b < 256; b++ {
				// the 0x00 branch is taken by P itself (terminator); P+0x00+tail
				// would fall under the open NUL finding.
				if b == 0 {
					out = append(out, K(append([]byte{}, P...)))
					continue
				}
				out = append(out, K(cat(P, []byte{byte(b)}, tail)))
			}
			return out
		},
		Staircase: func(r *rng.R) []K {
			var out []K
			cur := fromAlphabet(r, smallAlphabet, r.Intn(3))
			steps := 36 + r.Intn(40)
			for i := 0; i < steps; i++ {
				cur = cat(cur, []byte{smallAlphabet[r.Intn(len(smallAlphabet))]})
				out = append(out, K(append([]byte{}, cur...)))
				if r.Chance(1, 3) {
					out = append(out, K(cat(cur, []byte{'~'}, fromAlphabet(r, tinyAlphabet, r.Intn(2)))))
				}
			}
			return out
		},
		Fan2: func(r *rng.R) ([]K, int, []K) {
			P := fromAlphabet(r, smallAlphabet, rng.Pick(r, []int{0, 2, 9, 12}))
			b0 := 40 + r.Intn(180)
			var upper, lower []K
			for b := 1; b < 256; b++ {
				upper = append(upper, K(cat(P, []byte{byte(b)}, []byte("u"))))
			}
			for c := 1; c < 256; c++ {
				lower = append(lower, K(cat(P, []byte{byte(b0), byte(c)}, []byte("l"))))
			}
			return upper, b0 - 1, lower
		},
		Deepen: func(r *rng.R, a K) K {
			return K(cat([]byte(a), []byte{rng.Pick(r, smallAlphabet)}, fromAlphabet(r, tinyAlphabet, r.Intn(2))))
		},
		Enc:      func(a K) []byte { return cat([]byte(a), []byte{0}) },
		Storable: nulFree[K],
		HasRange: true,
		RangeOK:  func(a, b K) (bool, string) { return true, "" },
		EmptyEnd: func(a K) bool { return len(a) == 0 },

		HasPrefix:   true,
		PrefixOf:    func(a, p K) bool { return bytes.HasPrefix([]byte(a), []byte(p)) },
		PrefixArgOK: func(p K) bool { return true },
		SliceKey:    slice,
	}
	k.PrefixQueries = func(r *rng.R, a K) []K {
		b := []byte(a)
		var out []K
		cuts := []int{0, 1, len(b) / 2, len(b) - 1, len(b), 9, 10, 11, 12}
		for _, c := range cuts {
			if c >= 0 && c <= len(b) {
				out = append(out, K(append([]byte{}, b[:c]...)))
			}
		}
		// a look-alike: one byte changed (often beyond the 10 inline bytes), then cut at
		// every length from there on (ends inside / at the end of a path, at an inner node, at a leaf)
		if len(b) > 1 {
			c := append([]byte{}, b...)
			i := r.Intn(len(c))
			if len(c) > 11 {
				i = 10 + r.Intn(len(c)-10)
			}
			c[i] ^= byte(1 << r.Intn(8))
			for cut := i + 1; cut <= len(c) && cut <= i+24; cut++ {
				out = append(out, K(append([]byte{}, c[:cut]...)))
			}
		}
		out = append(out, K(cat(b, []byte{'a'})))               // longer than the key
		out = append(out, K(ByteNear(r, b)), K(ByteNear(r, b))) // diverging
		out = append(out, K(cat([]byte{0}, b)), K([]byte{0}))   // leading NUL
		if len(b) > 0 {
			c := append([]byte{}, b...)
			c[r.Intn(len(c))]++
			out = append(out, K(c))
		}
		return out
	}
	k.Universes = func() []Universe[K] { return alphaUniverses[K]() }
	return k
}

func rep(b byte, n int) []byte { return bytes.Repeat([]byte{b}, n) }

func alphaUniverses[K chars]() []Universe[K] {
	mk := func(name string, ss ...[]byte) Universe[K] {
		u := Universe[K]{Name: name}
		for _, s := range ss {
			u.Keys = append(u.Keys, K(s))
		}
		return u
	}
	a9, a10, a11, a12 := rep('a', 9), rep('a', 10), rep('a', 11), rep('a', 12)
	return []Universe[K]{
		mk("empty-and-short", []byte{}, []byte("a"), []byte("ab"), []byte("abc"), []byte("b"), []byte("ba"), []byte{0xFF}, []byte{0x01}),
		mk("inline-limit", cat(a9, []byte("x")), cat(a9, []byte("y")), cat(a10, []byte("x")), cat(a10, []byte("y")),
			cat(a11, []byte("x")), cat(a11, []byte("y")), cat(a12, []byte("x")), cat(a12, []byte("yz"))),
		mk("optimistic-split", cat(a12, []byte("bxy1")), cat(a12, []byte("bxy2")), cat(a12, []byte("cxyz1")), cat(a12, []byte("cxyz2")),
			cat(rep('a', 5), []byte("q")), cat(a11, []byte("q")), []byte("a")),
		mk("grow-4-16", []byte("p0"), []byte("p1"), []byte("p2"), []byte("p3"), []byte("p4"), []byte("p\x7f"), []byte("p\x80"), []byte("p\xff")),
		mk("nested", []byte("ab"), []byte("abc"), []byte("abcd"), []byte("abce"), []byte("abd"), []byte("b"), []byte("abcde")),
	}
}

func AlphaString() *Kind[string] { return alphaKind[string]("alpha/string", false) }
func AlphaBytes() *Kind[[]byte] {
	k := alphaKind[[]byte]("alpha/bytes", true)
	k.Shorten = func(b []byte, n int) []byte { return b[:n] }
	k.KeyLen = func(b []byte) int { return len(b) }
	return k
}

// SortBytes is a helper for tests of the generators themselves.
func SortBytes(bs [][]byte) {
	sort.Slice(bs, func(i, j int) bool { return bytes.Compare(bs[i], bs[j]) < 0 })
}
