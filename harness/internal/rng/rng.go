// Package rng is the single deterministic PRNG of the harness (splitmix64).
// Every stream is derived from (VERIF_SEED, labels...) so that a case is a
// pure function of its coordinates.
package rng

type R struct{ s uint64 }

func mix(z uint64) uint64 {
	z += 0x9E3779B97F4A7C15
	z = (z ^ (z >> 30)) * 0xBF58476D1CE4E5B9
	z = (z ^ (z >> 27)) * 0x94D049BB133111EB
	return z ^ (z >> 31)
}

func New(seed uint64, labels ...uint64) *R {
	s := mix(seed)
	for _, l := range labels {
		s = mix(s ^ mix(l))
	}
	return &R{s: s}
}

func HashString(s string) uint64 {
	h := uint64(14695981039346656037)
	for i := 0; i < len(s); i++ {
		h ^= uint64(s[i])
		h *= 1099511628211
	}
	return h
}

func (r *R) U64() uint64 {
	r.s += 0x9E3779B97F4A7C15
	z := r.s
	z = (z ^ (z >> 30)) * 0xBF58476D1CE4E5B9
	z = (z ^ (z >> 27)) * 0x94D049BB133111EB
	return z ^ (z >> 31)
}

func (r *R) Intn(n int) int {
	if n <= 0 {
		return 0
	}
	return int(r.U64() % uint64(n))
}

// Chance returns true with probability num/den.
func (r *R) Chance(num, den int) bool { return r.Intn(den) < num }

func (r *R) Byte() byte { return byte(r.U64()) }

func (r *R) Bytes(n int) []byte {
	b := make([]byte, n)
	for i := range b {
		b[i] = r.Byte()
	}
	return b
}

func Pick[T any](r *R, xs []T) T { return xs[r.Intn(len(xs))] }

func Shuffle[T any](r *R, xs []T) {
	for i := len(xs) - 1; i > 0; i-- {
		j := r.Intn(i + 1)
		xs[i], xs[j] = xs[j], xs[i]
	}
}

// State exposes the stream position for replay files.
func (r *R) State() uint64 { return r.s }
