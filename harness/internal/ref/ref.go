// Package ref is the ideal ordered map the library is compared with.
// It is deliberately naive: a hash map from canonical identity to entry and a
// slice kept sorted by the oracle comparator.
package ref

import "sort"

type Entry[K any] struct {
	Key K
	Val uint64
}

type Map[K any] struct {
	cmp    func(a, b K) int
	id     func(K) string
	byID   map[string]*Entry[K]
	sorted []*Entry[K]
}

func New[K any](cmp func(a, b K) int, id func(K) string) *Map[K] {
	return &Map[K]{cmp: cmp, id: id, byID: map[string]*Entry[K]{}}
}

func (m *Map[K]) Len() int { return len(m.sorted) }

func (m *Map[K]) Get(k K) (uint64, bool) {
	e, ok := m.byID[m.id(k)]
	if !ok {
		return 0, false
	}
	return e.Val, true
}

func (m *Map[K]) Has(k K) bool { _, ok := m.byID[m.id(k)]; return ok }

// lowerBound: first index whose key is >= k under cmp.
func (m *Map[K]) LowerBound(k K) int {
	return sort.Search(len(m.sorted), func(i int) bool { return m.cmp(m.sorted[i].Key, k) >= 0 })
}

// Put returns true when the key was new. The key stored is the caller's
// value as given: callers pass clones for slice keys.
func (m *Map[K]) Put(k K, v uint64) bool {
	id := m.id(k)
	if e, ok := m.byID[id]; ok {
		e.Val = v
		return false
	}
	e := &Entry[K]{Key: k, Val: v}
	m.byID[id] = e
	i := m.LowerBound(k)
	m.sorted = append(m.sorted, nil)
	copy(m.sorted[i+1:], m.sorted[i:])
	m.sorted[i] = e
	return true
}

func (m *Map[K]) Del(k K) bool {
	id := m.id(k)
	e, ok := m.byID[id]
	if !ok {
		return false
	}
	delete(m.byID, id)
	i := m.LowerBound(e.Key)
	for i < len(m.sorted) && m.sorted[i] != e {
		i++
	}
	if i == len(m.sorted) { // comparator inconsistent with identity: fall back to a scan
		for j := range m.sorted {
			if m.sorted[j] == e {
				i = j
				break
			}
		}
	}
	m.sorted = append(m.sorted[:i], m.sorted[i+1:]...)
	return true
}

// Sorted returns the live sorted view (ascending). Do not modify.
func (m *Map[K]) Sorted() []*Entry[K] { return m.sorted }

func (m *Map[K]) At(i int) *Entry[K] { return m.sorted[i] }

func (m *Map[K]) Clone() *Map[K] {
	c := New(m.cmp, m.id)
	for _, e := range m.sorted {
		ne := &Entry[K]{Key: e.Key, Val: e.Val}
		c.byID[m.id(e.Key)] = ne
		c.sorted = append(c.sorted, ne)
	}
	return c
}
