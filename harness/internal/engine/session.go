// Package engine runs histories against a real tree and its reference
// model in lock-step, with the monitors a property asks for.
package engine

import (
	"fmt"
	"runtime/debug"
	"strings"

	art "github.com/Clement-Jean/go-art"

	"verif/internal/ev"
	"verif/internal/kinds"
	"verif/internal/ref"
	"verif/internal/rng"
)

type Mon uint32

const (
	MMap    Mon = 1 << iota // C01: results of Insert/Delete/Search
	MIter                   // C02: All/Backward
	MRange                  // C03
	MPrefix                 // C04
	MExt                    // C05: Minimum/Maximum/TopK/BottomK
	MSize                   // C06
	MShape                  // C11
	MSeq                    // C14
	MPurity                 // C15
	MCensus                 // observe-only: transition census from dumps
)

type Config struct {
	Prop string
	Mons Mon

	Histories      int // random histories per kind
	MinOps, MaxOps int
	PoolMin        int
	PoolMax        int
	Closed         bool
	Sweeps         int   // threshold walks per kind
	CheckEvery     []int // the per-history check period is drawn from this list
	Queries        int   // range / prefix / k queries per check point
	PrefixScope    bool  // draw contents from the C04-scope pool (collation)
	LongHistories  int
	// FanHistories: histories whose pool is one 256-way fan-out family plus a few unrelated keys
	// (large non-root nodes with siblings), checked rarely: for monitors that are costly per check
	FanHistories int
	// BigHistories: a tree of a few thousand keys, checked two or three times
	BigHistories int
	// ClosedAllQueries: closed explorations query all bound pairs / derived prefixes after every transition
	ClosedAllQueries bool
	// ClosedNeighbours: (thorough) bounds also range over one neighbour of every universe key
	ClosedNeighbours bool
	LongOps          int
}

func (c *Config) Has(m Mon) bool { return c.Mons&m != 0 }

// Session is one tree with its model.
type Session[K any] struct {
	K    *kinds.Kind[K]
	Cfg  *Config
	Res  *ev.Result
	T    art.Tree[K, uint64]
	M    *ref.Map[K]
	Unit string

	hist    []string
	histCut int
	nextVal uint64
	Dead    bool // a violation ended this session
	Quiet   bool // replaying a prefix: no monitors, no counting
	every   int
	opCount int
	trace   *ev.Hasher // result trace (twin comparison)

	prev *art.VerifTree // last dump (census / shape)

	recentlyDeleted []K // last few keys removed by Delete (absent-probe candidates)

	muts []mutation[K] // C15: every mutating call so far (replayed into a never-queried tree)

	// ExtHistory, when set, supplies the witness history (sessions attached to a tree
	// that another driver mutates: the driver owns the operation log)
	ExtHistory func() []string
}

// Attach wraps a tree and a model that another driver keeps in lock-step, so that
// the read-only monitors (CheckIter, CheckExtremes, CheckRanges, CheckPrefixes, CheckSize)
// can be run on them at the driver's check points.
func Attach[K any](k *kinds.Kind[K], cfg *Config, res *ev.Result, unit string, t art.Tree[K, uint64], m *ref.Map[K], hist func() []string) *Session[K] {
	return &Session[K]{K: k, Cfg: cfg, Res: res, Unit: unit, every: 1, trace: ev.NewHasher(), T: t, M: m, ExtHistory: hist}
}

// SetModel replaces the model (drivers that rebuild it).
func (s *Session[K]) SetModel(m *ref.Map[K]) { s.M = m }

func NewSession[K any](k *kinds.Kind[K], cfg *Config, res *ev.Result, unit string) *Session[K] {
	s := &Session[K]{K: k, Cfg: cfg, Res: res, Unit: unit, every: 1, trace: ev.NewHasher()}
	s.T = k.New()
	s.M = ref.New(k.Cmp, k.ID)
	return s
}

const histCap = 600

func (s *Session[K]) log(format string, a ...any) {
	if len(s.hist) >= histCap {
		// keep the first 100 and the most recent ones
		copy(s.hist[100:], s.hist[200:])
		s.hist = s.hist[:len(s.hist)-100]
		s.histCut += 100
	}
	s.hist = append(s.hist, fmt.Sprintf(format, a...))
}

func (s *Session[K]) History() []string {
	if s.ExtHistory != nil {
		return s.ExtHistory()
	}
	out := append([]string{}, s.hist...)
	if s.histCut > 0 {
		out = append(out[:100:100], append([]string{fmt.Sprintf("... %d operations elided ...", s.histCut)}, out[100:]...)...)
	}
	return out
}

func (s *Session[K]) violate(what, expected, observed, pan string) {
	s.Dead = true
	s.Res.Violate(ev.Violation{
		Prop: s.Cfg.Prop, Kind: s.K.Name, Unit: s.Unit, What: what,
		Expected: expected, Observed: observed, Panic: pan, History: s.History(),
	})
}

// guard runs f and converts a library panic into a violation of "returns
// normally". It reports whether f panicked.
func (s *Session[K]) guard(what string, f func()) (panicked bool) {
	defer func() {
		if p := recover(); p != nil {
			panicked = true
			st := string(debug.Stack())
			if i := strings.Index(st, "panic("); i >= 0 {
				st = st[i:]
			}
			if len(st) > 1800 {
				st = st[:1800]
			}
			s.violate(what+" panicked", "returns normally", fmt.Sprint(p), st)
		}
	}()
	f()
	return false
}

func (s *Session[K]) fresh(k K) K { return s.K.Clone(k) }

// ---- mutating operations ----

// Insert applies Insert(k, fresh id) to tree and model. It returns false
// when the key is outside the scope (skipped).
func (s *Session[K]) Insert(k K) bool {
	if ok, why := s.K.Storable(s.M, k); !ok {
		if !s.Quiet {
			s.Res.Inc("skipped_" + why)
		}
		return false
	}
	s.nextVal++
	v := s.nextVal
	s.log("Insert(%s, %d)", s.K.Show(k), v)
	var before *art.VerifTree
	if !s.Quiet && s.Cfg.Has(MCensus|MSize|MShape) {
		before = s.dump()
	}
	if s.guard("Insert", func() { s.T.Insert(s.fresh(k), v) }) {
		return true
	}
	isNew := s.M.Put(s.K.Clone(k), v)
	if s.Cfg.Has(MPurity) && len(s.muts) < 4096 {
		s.muts = append(s.muts, mutation[K]{false, s.K.Clone(k), v})
	}
	s.opCount++
	if s.Quiet {
		return true
	}
	s.Res.Evaluations++
	if isNew {
		s.Res.Inc("op_insert_new")
	} else {
		s.Res.Inc("op_insert_overwrite")
	}
	if s.Cfg.Has(MMap) {
		var got uint64
		var ok bool
		if s.guard("Search after Insert", func() { got, ok = s.T.Search(s.fresh(k)) }) {
			return true
		}
		s.trace.U64(got)
		if !ok || got != v {
			s.violate("Search right after Insert does not return the inserted value", fmt.Sprintf("(%d,true)", v), fmt.Sprintf("(%d,%v)", got, ok), "")
			return true
		}
	}
	if before != nil {
		s.afterMutation(before, true, isNew, v)
	}
	return true
}

func (s *Session[K]) Delete(k K) {
	s.log("Delete(%s)", s.K.Show(k))
	var before *art.VerifTree
	if !s.Quiet && s.Cfg.Has(MCensus|MSize|MShape) {
		before = s.dump()
	}
	var got bool
	if s.guard("Delete", func() { got = s.T.Delete(s.fresh(k)) }) {
		return
	}
	want := s.M.Del(k)
	if s.Cfg.Has(MPurity) && len(s.muts) < 4096 {
		s.muts = append(s.muts, mutation[K]{true, s.K.Clone(k), 0})
	}
	if want {
		s.recentlyDeleted = append(s.recentlyDeleted, s.K.Clone(k))
		if len(s.recentlyDeleted) > 4 {
			s.recentlyDeleted = s.recentlyDeleted[1:]
		}
	}
	s.opCount++
	if s.Quiet {
		return
	}
	s.Res.Evaluations++
	if want {
		s.Res.Inc("op_delete_present")
	} else {
		s.Res.Inc("op_delete_absent")
	}
	if got {
		s.trace.Byte(1)
	} else {
		s.trace.Byte(0)
	}
	if s.Cfg.Has(MMap) && got != want {
		s.violate("Delete reports the wrong presence", fmt.Sprint(want), fmt.Sprint(got), "")
		return
	}
	if s.Cfg.Has(MMap) && want {
		var ok bool
		if s.guard("Search after Delete", func() { _, ok = s.T.Search(s.fresh(k)) }) {
			return
		}
		if ok {
			s.violate("key still found right after Delete returned true", "absent", "present", "")
			return
		}
	}
	if before != nil {
		s.afterMutation(before, false, want, 0)
	}
}

func (s *Session[K]) Search(k K) {
	s.log("Search(%s)", s.K.Show(k))
	var got uint64
	var ok bool
	if s.guard("Search", func() { got, ok = s.T.Search(s.fresh(k)) }) {
		return
	}
	s.opCount++
	if s.Quiet {
		return
	}
	want, wok := s.M.Get(k)
	s.Res.Evaluations++
	if wok {
		s.Res.Inc("op_search_hit")
	} else {
		s.Res.Inc("op_search_miss")
	}
	s.trace.U64(got)
	if s.Cfg.Has(MMap) {
		if ok != wok || (ok && got != want) {
			s.violate("Search returns something else than the ideal map", fmt.Sprintf("(%d,%v)", want, wok), fmt.Sprintf("(%d,%v)", got, ok), "")
		}
	}
}

// Trace returns the digest of all results observed so far.
func (s *Session[K]) Trace() uint64 { return s.trace.Sum() }

// SearchAll probes every model key and (MMap) compares.
func (s *Session[K]) SearchAll() {
	for _, e := range s.M.Sorted() {
		if s.Dead {
			return
		}
		var got uint64
		var ok bool
		if s.guard("Search(stored key)", func() { got, ok = s.T.Search(s.fresh(e.Key)) }) {
			return
		}
		s.Res.Evaluations++
		if !ok || got != e.Val {
			s.log("Search(%s)", s.K.Show(e.Key))
			s.violate("a stored key is lost or carries a stale value", fmt.Sprintf("(%d,true)", e.Val), fmt.Sprintf("(%d,%v)", got, ok), "")
			return
		}
	}
}

// ---- generators of whole units ----

type mutation[K any] struct {
	del bool
	k   K
	v   uint64
}

type phase struct{ n, pIns, pDel int } // out of 100; rest = Search

func (s *Session[K]) pickStored(r *rng.R) (K, bool) {
	if s.M.Len() == 0 {
		var z K
		return z, false
	}
	return s.M.At(r.Intn(s.M.Len())).Key, true
}

// StepOp draws and applies one random map operation.
func (s *Session[K]) StepOp(r *rng.R, pool []K, ph phase) {
	x := r.Intn(100)
	switch {
	case x < ph.pIns:
		k := rng.Pick(r, pool)
		if r.Chance(1, 10) {
			if st, ok := s.pickStored(r); ok {
				k = s.K.Near(r, st)
			}
		}
		s.Insert(k)
	case x < ph.pIns+ph.pDel:
		var k K
		y := r.Intn(10)
		st, ok := s.pickStored(r)
		switch {
		case y < 7 && ok:
			k = st
		case y < 9 || !ok:
			k = rng.Pick(r, pool)
		default:
			k = s.K.Near(r, st)
		}
		s.Delete(k)
	default:
		var k K
		y := r.Intn(4)
		st, ok := s.pickStored(r)
		switch {
		case y < 2 && ok:
			k = st
		case y == 2 || !ok:
			k = rng.Pick(r, pool)
		default:
			k = s.K.Near(r, st)
		}
		s.Search(k)
	}
}

func randomPhases(r *rng.R, total int) []phase {
	shapes := [][]phase{
		{{40, 75, 5}, {30, 40, 40}, {20, 10, 75}, {10, 70, 10}},
		{{20, 90, 0}, {60, 35, 45}, {20, 5, 90}},
		{{50, 60, 20}, {50, 20, 60}},
		{{10, 80, 5}, {15, 10, 80}, {10, 80, 5}, {15, 10, 80}, {10, 80, 5}, {15, 10, 80}, {25, 50, 30}},
		{{100, 45, 40}},
	}
	sh := rng.Pick(r, shapes)
	out := make([]phase, len(sh))
	for i, p := range sh {
		out[i] = phase{n: max(1, total*p.n/100), pIns: p.pIns, pDel: p.pDel}
	}
	return out
}

// RunHistory executes one random history unit.
func (s *Session[K]) RunHistory(r *rng.R, nOps, poolN int) {
	var pool []K
	if s.Cfg.PrefixScope && s.K.Family == "collation" {
		pool = s.prefixScopePool(r, poolN)
	} else {
		pool = s.K.Pool(r, poolN)
	}
	s.every = 1
	if len(s.Cfg.CheckEvery) > 0 {
		s.every = rng.Pick(r, s.Cfg.CheckEvery)
	}
	wantSample := s.Res.WantSample()
	var sampleKeys []string
	for i := 0; i < min(6, len(pool)); i++ {
		sampleKeys = append(sampleKeys, s.K.Show(pool[i]))
	}
	defer func() {
		if wantSample && s.Res.WantSample() {
			s.Res.Sample(map[string]any{"unit": s.Unit, "kind": s.K.Name, "ops": nOps, "pool_size": len(pool), "first_pool_keys": sampleKeys,
				"first_calls": append([]string{}, s.hist[:min(12, len(s.hist))]...), "keys_at_end": s.M.Len()})
		}
	}()
	step := 0
	for _, ph := range randomPhases(r, nOps) {
		for i := 0; i < ph.n && !s.Dead; i++ {
			s.StepOp(r, pool, ph)
			step++
			if !s.Dead && step%s.every == 0 {
				s.After(r)
			}
		}
	}
	if !s.Dead {
		s.After(r)
		s.Final(r, pool)
	}
}

// Final: end-of-history checks (no key lost, nothing resurrected).
func (s *Session[K]) Final(r *rng.R, pool []K) {
	if s.Cfg.Has(MMap) {
		s.SearchAll()
		for i := 0; i < 20 && !s.Dead; i++ {
			k := rng.Pick(r, pool)
			if r.Chance(1, 2) {
				if st, ok := s.pickStored(r); ok {
					k = s.K.Near(r, st)
				}
			}
			s.Search(k)
		}
	}
	if s.Cfg.Has(MPurity) && !s.Dead {
		s.CheckQueryIndependence()
	}
	s.digestState()
}

// RunStaleLaneWalk: the directed history behind every "stale lane / stale slot"
// defect: fill one node to exactly c children, remove the child under the
// largest byte, drain further, then touch the removed key again (search it,
// delete it again, insert it again, delete it), with all monitors after every step.
func (s *Session[K]) RunStaleLaneWalk(r *rng.R) {
	fam := s.K.Fan(r)
	if len(fam) < 20 {
		return
	}
	s.every = 1
	sorted := append([]K{}, fam...)
	// ascending by the oracle order: position in the family == branch byte order
	for i := 1; i < len(sorted); i++ {
		for j := i; j > 0 && s.K.Cmp(sorted[j-1], sorted[j]) > 0; j-- {
			sorted[j-1], sorted[j] = sorted[j], sorted[j-1]
		}
	}
	step := func(f func()) bool {
		f()
		if !s.Dead {
			s.After(r)
		}
		return !s.Dead
	}
	for _, c := range []int{4, 16, 5, 17, 48} {
		if c > len(sorted) {
			continue
		}
		start := r.Intn(len(sorted) - c + 1)
		members := append([]K{}, sorted[start:start+c]...)
		ins := append([]K{}, members...)
		if r.Chance(1, 2) {
			rng.Shuffle(r, ins)
		}
		var stored []K
		for _, k := range ins {
			if s.Insert(k) {
				stored = append(stored, k)
			}
			if s.Dead {
				return
			}
		}
		if len(stored) < 3 {
			continue
		}
		// the largest stored member
		mx := stored[0]
		for _, k := range stored {
			if s.K.Cmp(k, mx) > 0 {
				mx = k
			}
		}
		if !step(func() { s.Delete(mx) }) {
			return
		}
		// drain to 3 (never refilling), smallest or random first
		rest := make([]K, 0, len(stored))
		for _, k := range stored {
			if s.K.Cmp(k, mx) != 0 {
				rest = append(rest, k)
			}
		}
		rng.Shuffle(r, rest)
		for len(rest) > 3 {
			k := rest[len(rest)-1]
			rest = rest[:len(rest)-1]
			if !step(func() { s.Delete(k) }) {
				return
			}
			if r.Chance(1, 3) {
				if !step(func() { s.Search(mx); s.Delete(mx) }) {
					return
				}
			}
		}
		if !step(func() { s.Search(mx) }) || !step(func() { s.Delete(mx) }) || !step(func() { s.Insert(mx) }) || !step(func() { s.Delete(mx) }) || !step(func() { s.Insert(mx) }) {
			return
		}
		// clean up for the next size
		for _, k := range append(rest, mx) {
			s.Delete(k)
			if s.Dead {
				return
			}
		}
		s.After(r)
	}
	if !s.Dead {
		s.Final(r, fam)
	}
}

// RunFan2: two wide nodes stacked on the leftmost or rightmost path (and elsewhere):
// a subset of an upper family on one side of the anchor branch, plus a subset of a lower
// family under the anchor branch; all monitors after every few operations.
func (s *Session[K]) RunFan2(r *rng.R) {
	upper, anchor, lower := s.K.Fan2(r)
	if len(upper) < 100 || len(lower) < 100 {
		return
	}
	s.every = 1
	// the anchor branch is the smallest present upper branch, the largest, or somewhere inside
	var us []K
	switch r.Intn(3) {
	case 0:
		us = append(us, upper[anchor:]...)
	case 1:
		us = append(us, upper[:anchor+1]...)
	default:
		us = append(us, upper...)
	}
	rng.Shuffle(r, us)
	ls := append([]K{}, lower...)
	rng.Shuffle(r, ls)
	nu := min(len(us), 50+r.Intn(60))
	nl := min(len(ls), 50+r.Intn(150))
	us, ls = us[:nu], ls[:nl]
	if s.Res.WantSample() {
		s.Res.Sample(map[string]any{"unit": s.Unit, "kind": s.K.Name, "upper_members": nu, "lower_members": nl, "anchor": s.K.Show(upper[anchor])})
	}
	all := append(append([]K{}, us...), ls...)
	rng.Shuffle(r, all)
	for i, k := range all {
		s.Insert(k)
		if s.Dead {
			return
		}
		if i%9 == 0 || i > len(all)-6 {
			s.After(r)
			if s.Dead {
				return
			}
		}
	}
	// thin both levels a little, then look again
	for i := 0; i < 30 && !s.Dead; i++ {
		s.Delete(rng.Pick(r, all))
		if !s.Dead && i%5 == 0 {
			s.After(r)
		}
	}
	if !s.Dead {
		s.Final(r, all)
	}
}

// RunSweep: directed threshold walk over one fan-out family.
func (s *Session[K]) RunSweep(r *rng.R) {
	fam := s.K.Fan(r)
	if len(fam) == 0 {
		return
	}
	order := append([]K{}, fam...)
	switch r.Intn(4) {
	case 0: // ascending
	case 1: // descending
		for i, j := 0, len(order)-1; i < j; i, j = i+1, j-1 {
			order[i], order[j] = order[j], order[i]
		}
	default:
		rng.Shuffle(r, order)
	}
	// optionally a second key under each branch so that children are inner nodes
	s.every = 1
	n := len(order)
	targets := []int{5, 3, 6, 17, 12, 18, 11, 49, 37, 50, 36, n, 38, 36, 49, 13, 11, 17, 4, 2, 5, 0}
	switch r.Intn(3) {
	case 0:
		targets = []int{4, 5, 4, 5, 3, 4, 16, 17, 16, 17, 13, 12, 13, 12, 48, 49, 48, 49, n, n - 1, n, 38, 37, 38, 37, 36, 12, 3, 1, 0}
	case 1: // stay inside the 48 class: fill it completely, punch holes, refill, churn
		targets = []int{17, 48, 40, 48, 47, 48, 30, 48, 13, 48, 47, 48, 20, 31, 30, 31, 30, 31, 30, 31, 30, 31, 30, 31, 30, 31, 30, 31, 30, 31, 30, 31, 30, 31, 30, 31, 30, 31, 30, 48, n, 40, 12, 3, 0}
	}
	if s.Res.WantSample() {
		s.Res.Sample(map[string]any{"unit": s.Unit, "kind": s.K.Name, "family_size": n, "first": s.K.Show(order[0]), "targets": targets})
	}
	in := map[int]bool{}
	var live []int
	delLargest := r.Chance(1, 2)
	// deep mode: every member travels with a second key under the same branch, so that
	// the children of the fan-out node are inner nodes
	var extra []K
	if s.K.Deepen != nil && r.Chance(1, 2) {
		extra = make([]K, n)
		for i := range extra {
			extra[i] = s.K.Deepen(r, order[i])
		}
		s.Res.Inc("sweeps_with_inner_children")
	}
	for _, tg := range targets {
		tg = min(tg, n)
		for len(live) < tg && !s.Dead {
			// next absent member
			var cand []int
			for i := 0; i < n && len(cand) < 8; i++ {
				j := (i + r.Intn(n)) % n
				if !in[j] {
					cand = append(cand, j)
				}
			}
			if len(cand) == 0 {
				break
			}
			j := cand[0]
			if r.Chance(1, 2) {
				for i := 0; i < n; i++ { // lowest absent in order
					if !in[i] {
						j = i
						break
					}
				}
			}
			if !s.Insert(order[j]) {
				in[j] = true // never storable: pretend present so we do not loop
				continue
			}
			in[j] = true
			live = append(live, j)
			if extra != nil && !s.Dead {
				s.Insert(extra[j])
			}
			if !s.Dead {
				s.After(r)
			}
		}
		for len(live) > tg && !s.Dead {
			var i int
			switch r.Intn(5) {
			case 0:
				i = len(live) - 1
			case 1:
				i = 0
			case 2, 3: // by key order: the largest / smallest live member
				i = 0
				for x := range live {
					c := s.K.Cmp(order[live[x]], order[live[i]])
					if (delLargest && c > 0) || (!delLargest && c < 0) {
						i = x
					}
				}
			default:
				i = r.Intn(len(live))
			}
			j := live[i]
			live = append(live[:i], live[i+1:]...)
			in[j] = false
			s.Delete(order[j])
			if extra != nil && !s.Dead {
				if r.Chance(1, 2) {
					s.After(r) // between the two: the branch holds a single leaf again
				}
				if !s.Dead {
					s.Delete(extra[j])
				}
			}
			if !s.Dead {
				s.After(r)
			}
			if r.Chance(1, 6) && !s.Dead { // absent probe / no-op delete in the middle
				s.Search(order[j])
				s.Delete(order[j])
			}
		}
	}
	if !s.Dead {
		s.Final(r, order)
	}
}
