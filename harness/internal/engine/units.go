package engine

import (
	"fmt"

	art "github.com/Clement-Jean/go-art"

	"verif/internal/ev"
	"verif/internal/kinds"
	"verif/internal/rng"
)

// Unit is one independently replayable piece of work. Its behaviour is a
// pure function of (seed, name).
type Unit struct {
	Name string
	Run  func(res *ev.Result)
}

func unitRng(seed uint64, name string) *rng.R { return rng.New(seed, rng.HashString(name)) }

// UnitsFor lists the units of one kind under one configuration.
func UnitsFor[K any](k *kinds.Kind[K], cfg *Config, seed uint64) []Unit {
	var us []Unit
	for i := 0; i < cfg.Histories; i++ {
		name := fmt.Sprintf("%s/hist/%d", k.Name, i)
		us = append(us, Unit{name, func(res *ev.Result) {
			r := unitRng(seed, name)
			s := NewSession(k, cfg, res, name)
			nOps := cfg.MinOps + r.Intn(cfg.MaxOps-cfg.MinOps+1)
			pool := cfg.PoolMin + r.Intn(cfg.PoolMax-cfg.PoolMin+1)
			if r.Chance(1, 5) { // few keys, many ops
				pool = 2 + r.Intn(10)
			}
			s.RunHistory(r, nOps, pool)
			res.Inc("units_history")
		}})
	}
	for i := 0; i < cfg.LongHistories; i++ {
		name := fmt.Sprintf("%s/long/%d", k.Name, i)
		us = append(us, Unit{name, func(res *ev.Result) {
			r := unitRng(seed, name)
			s := NewSession(k, cfg, res, name)
			s.RunHistory(r, cfg.LongOps, 2000+r.Intn(6000))
			res.Inc("units_long_history")
		}})
	}
	for i := 0; i < cfg.BigHistories; i++ {
		name := fmt.Sprintf("%s/bighist/%d", k.Name, i)
		us = append(us, Unit{name, func(res *ev.Result) {
			r := unitRng(seed, name)
			s := NewSession(k, cfg, res, name)
			pool := k.Pool(r, 1500+r.Intn(1500))
			if k.VariantFamily != nil {
				pool = append(pool, k.VariantFamily(r, 300)...)
			}
			for _, key := range pool {
				if s.Dead {
					return
				}
				s.Insert(key)
			}
			s.every = 1 << 30
			for i := 0; i < 2 && !s.Dead; i++ {
				s.After(r)
				for j := 0; j < 30 && !s.Dead; j++ {
					s.StepOp(r, pool, phase{n: 1, pIns: 30, pDel: 50})
				}
			}
			res.Inc("units_big_history")
		}})
	}
	if k.Staircase != nil {
		for i := 0; i < max(1, cfg.Sweeps/2); i++ {
			name := fmt.Sprintf("%s/staircase/%d", k.Name, i)
			us = append(us, Unit{name, func(res *ev.Result) {
				r := unitRng(seed, name)
				s := NewSession(k, cfg, res, name)
				keys := k.Staircase(r)
				order := append([]K{}, keys...)
				if r.Chance(1, 2) {
					rng.Shuffle(r, order)
				}
				s.every = 1 << 30
				for i, key := range order {
					if s.Dead {
						return
					}
					s.Insert(key)
					if i%16 == 15 {
						s.After(r)
					}
				}
				if !s.Dead {
					s.After(r) // the whole chain is stored: the deepest path
				}
				for i := 0; i < len(keys)/3 && !s.Dead; i++ {
					s.Delete(rng.Pick(r, keys))
				}
				if !s.Dead {
					s.After(r)
					s.Final(r, keys)
				}
				res.Inc("units_staircase")
			}})
		}
	}
	if k.Fan2 != nil {
		for i := 0; i < (cfg.Sweeps+1)/2; i++ {
			name := fmt.Sprintf("%s/fan2/%d", k.Name, i)
			us = append(us, Unit{name, func(res *ev.Result) {
				r := unitRng(seed, name)
				s := NewSession(k, cfg, res, name)
				s.RunFan2(r)
				res.Inc("units_two_level_fan")
			}})
		}
	}
	if k.Fan != nil {
		for i := 0; i < cfg.FanHistories; i++ {
			name := fmt.Sprintf("%s/fanhist/%d", k.Name, i)
			us = append(us, Unit{name, func(res *ev.Result) {
				r := unitRng(seed, name)
				s := NewSession(k, cfg, res, name)
				fam := k.Fan(r)
				extra := k.Pool(r, 6)
				pool := append(append([]K{}, fam...), extra...)
				// load most of the family and the unrelated keys, then a short mixed history
				for _, key := range extra {
					s.Insert(key)
				}
				n := len(fam) * (50 + r.Intn(50)) / 100
				rng.Shuffle(r, fam)
				for _, key := range fam[:n] {
					if s.Dead {
						return
					}
					s.Insert(key)
				}
				s.every = 1 << 30
				for i := 0; i < 3 && !s.Dead; i++ {
					s.After(r)
					for j := 0; j < 20 && !s.Dead; j++ {
						s.StepOp(r, pool, phase{n: 1, pIns: 30, pDel: 50})
					}
				}
				if !s.Dead {
					s.After(r)
				}
				res.Inc("units_fan_history")
			}})
		}
		for i := 0; i < (cfg.Sweeps+1)/2; i++ {
			name := fmt.Sprintf("%s/stalelane/%d", k.Name, i)
			us = append(us, Unit{name, func(res *ev.Result) {
				r := unitRng(seed, name)
				s := NewSession(k, cfg, res, name)
				s.RunStaleLaneWalk(r)
				res.Inc("units_stale_lane_walk")
			}})
		}
		for i := 0; i < cfg.Sweeps; i++ {
			name := fmt.Sprintf("%s/sweep/%d", k.Name, i)
			us = append(us, Unit{name, func(res *ev.Result) {
				r := unitRng(seed, name)
				s := NewSession(k, cfg, res, name)
				s.RunSweep(r)
				res.Inc("units_sweep")
			}})
		}
	}
	if cfg.Closed && k.Universes != nil {
		for _, u := range k.Universes() {
			u := u
			name := fmt.Sprintf("%s/closed/%s", k.Name, u.Name)
			us = append(us, Unit{name, func(res *ev.Result) {
				RunClosed(k, cfg, res, u, name, unitRng(seed, name))
				res.Inc("units_closed")
			}})
		}
	}
	return us
}

type closedOp struct {
	del bool
	idx int
}

// structDigest identifies a structural state: size classes, fan-out
// counters, path lengths and effective bytes, raw key lanes, branch bytes and
// the keys themselves. Addresses and values are left out.
func structDigest(d *art.VerifTree) uint64 { return structDigestOpt(d, true) }

// structDigestNoLanes leaves the raw key lanes out: what sits in unoccupied lanes
// is not behaviour (used where two trees are compared for a verdict).
func structDigestNoLanes(d *art.VerifTree) uint64 { return structDigestOpt(d, false) }

func structDigestOpt(d *art.VerifTree, rawLanes bool) uint64 {
	h := ev.NewHasher()
	var walk func(in *art.VerifInner)
	walk = func(in *art.VerifInner) {
		h.U64(uint64(in.Kind))
		h.U64(uint64(in.ChildrenLen))
		h.U64(uint64(in.PrefixLen))
		h.Bytes(in.Prefix[:min(int(in.PrefixLen), len(in.Prefix))])
		if rawLanes {
			h.Bytes(in.Lanes)
		}
		for _, c := range in.Children {
			h.Byte(c.Byte)
			if rawLanes {
				h.U64(uint64(c.Slot))
			}
			if c.Leaf != nil {
				h.Bytes(c.Leaf.TKey)
			} else if c.Inner != nil {
				walk(c.Inner)
			}
		}
		h.Byte('}')
	}
	switch {
	case d.RootLeaf != nil:
		h.Bytes(d.RootLeaf.TKey)
	case d.RootInner != nil:
		walk(d.RootInner)
	}
	return h.Sum()
}

const closedStateCap = 60000

// RunClosed explores, breadth first, every structural state reachable by
// Insert/Delete over one small key universe; all monitors run after every
// single transition.
func RunClosed[K any](k *kinds.Kind[K], cfg *Config, res *ev.Result, u kinds.Universe[K], name string, r *rng.R) {
	seen := map[uint64]bool{}
	empty := NewSession(k, cfg, res, name)
	seen[structDigest(empty.dump())] = true
	queue := [][]closedOp{nil}
	states, transitions := 1, 0
	capped := false
	if res.WantSample() {
		var ks []string
		for _, key := range u.Keys {
			ks = append(ks, k.Show(key))
		}
		res.Sample(map[string]any{"unit": name, "kind": k.Name, "universe": ks})
	}
	for len(queue) > 0 {
		cur := queue[0]
		queue = queue[1:]
		for idx := range u.Keys {
			for _, del := range []bool{false, true} {
				s := NewSession(k, cfg, res, name)
				s.Quiet = true
				for _, op := range cur {
					if op.del {
						s.Delete(u.Keys[op.idx])
					} else {
						s.Insert(u.Keys[op.idx])
					}
					if s.Dead {
						return // already reported when this prefix was first explored
					}
				}
				s.Quiet = false
				if del {
					s.Delete(u.Keys[idx])
				} else if !s.Insert(u.Keys[idx]) {
					continue
				}
				transitions++
				if s.Dead {
					return
				}
				s.After(r)
				if s.Dead {
					return
				}
				if cfg.Has(MMap) {
					for _, key := range u.Keys {
						s.Search(key)
						if s.Dead {
							return
						}
					}
				}
				if cfg.ClosedAllQueries && cfg.Has(MRange) && k.HasRange {
					// all ordered pairs of bounds over the universe (present and absent alike),
					// in the thorough tier also over a neighbour of every universe key
					bounds := u.Keys
					if cfg.ClosedNeighbours {
						nr := unitRng(0xB0, name)
						bounds = append([]K{}, u.Keys...)
						for _, key := range u.Keys {
							bounds = append(bounds, k.Near(nr, key))
						}
					}
					for _, a := range bounds {
						for _, b := range bounds {
							s.CheckRange(a, b, "closed_all_pairs")
							if s.Dead {
								return
							}
						}
					}
				}
				if cfg.ClosedAllQueries && cfg.Has(MPrefix) && k.HasPrefix {
					for _, key := range u.Keys {
						for _, p := range k.PrefixQueries(r, key) {
							s.CheckPrefix(p, "closed_derived")
							if s.Dead {
								return
							}
						}
					}
				}
				d := structDigest(s.dump())
				res.Distinct(d)
				if !seen[d] {
					if states >= closedStateCap {
						capped = true
						continue
					}
					seen[d] = true
					states++
					queue = append(queue, append(append([]closedOp{}, cur...), closedOp{del, idx}))
				}
			}
		}
	}
	res.Count("closed_states", int64(states))
	res.Count("closed_transitions", int64(transitions))
	res.Exhaustive[name] = !capped
}
