package engine

import (
	"bytes"
	"fmt"
	"sort"
	"strings"

	art "github.com/Clement-Jean/go-art"

	"verif/internal/ev"
)

func newContentHasher() *ev.Hasher { return ev.NewHasher() }

type leafAt struct {
	l    *art.VerifLeaf
	path []byte // bytes the descent consumed to reach it
}

func classCap(kind int) int { return kind }

func firstLeaf(in *art.VerifInner) *art.VerifLeaf {
	for in != nil {
		if len(in.Children) == 0 {
			return nil
		}
		c := in.Children[0]
		if c.Leaf != nil {
			return c.Leaf
		}
		in = c.Inner
	}
	return nil
}

// shapeErrors checks the structural invariants of C11 on one dump and
// returns the leaves in index order.
func shapeErrors(d *art.VerifTree) (errs []string, leaves []leafAt) {
	bad := func(format string, a ...any) {
		if len(errs) < 8 {
			errs = append(errs, fmt.Sprintf(format, a...))
		}
	}
	for _, f := range d.Faults {
		bad("walker: %s", f)
	}
	var walk func(in *art.VerifInner, path []byte)
	walk = func(in *art.VerifInner, path []byte) {
		for _, f := range in.Faults {
			bad("node %#x: %s", in.Addr, f)
		}
		n := len(in.Children)
		if n < 2 {
			bad("node %#x (class %d, depth %d) has %d children: a branch point needs at least two", in.Addr, in.Kind, len(path), n)
		}
		recorded := in.ChildrenLen
		if in.Kind == 256 {
			// the counter is 8 bits wide: a full 256-way node reads 0
			if recorded != n%256 {
				bad("node %#x (class 256) records fan-out %d (mod 256) but has %d children", in.Addr, recorded, n)
			}
		} else if recorded != n {
			bad("node %#x (class %d) records fan-out %d but has %d children", in.Addr, in.Kind, recorded, n)
		}
		if n > classCap(in.Kind) {
			bad("node %#x: %d children exceed class %d", in.Addr, n, in.Kind)
		}
		for i := 1; i < n; i++ {
			if in.Children[i-1].Byte >= in.Children[i].Byte {
				bad("node %#x (class %d): branch bytes not strictly ascending at slot %d (%#02x then %#02x)", in.Addr, in.Kind, i, in.Children[i-1].Byte, in.Children[i].Byte)
			}
		}
		rep := firstLeaf(in)
		if rep == nil {
			bad("node %#x: no leaf below", in.Addr)
			return
		}
		d0 := len(path)
		pl := int(in.PrefixLen)
		if len(rep.TKey) < d0+pl+1 {
			bad("node %#x: compressed path length %d at depth %d runs past the %d-byte key of its first leaf", in.Addr, pl, d0, len(rep.TKey))
			return
		}
		seg := rep.TKey[d0 : d0+pl]
		inl := min(pl, len(in.Prefix))
		if !bytes.Equal(in.Prefix[:inl], seg[:inl]) {
			bad("node %#x: inline path bytes %x differ from the bytes its keys share there %x (depth %d, length %d)", in.Addr, in.Prefix[:inl], seg[:inl], d0, pl)
		}
		base := append(append([]byte{}, path...), seg...)
		for _, c := range in.Children {
			cp := append(append([]byte{}, base...), c.Byte)
			switch {
			case c.Leaf != nil:
				leaves = append(leaves, leafAt{c.Leaf, cp})
			case c.Inner != nil:
				walk(c.Inner, cp)
			}
		}
	}
	switch {
	case d.RootLeaf != nil:
		leaves = append(leaves, leafAt{d.RootLeaf, nil})
	case d.RootInner != nil:
		walk(d.RootInner, nil)
	}
	for _, la := range leaves {
		if !bytes.HasPrefix(la.l.TKey, la.path) {
			bad("leaf %x is filed under path %x which its own bytes do not determine", la.l.TKey, la.path)
		}
	}
	if d.Size != len(leaves) {
		bad("reported size %d but %d keys are reachable", d.Size, len(leaves))
	}
	return errs, leaves
}

// canonical radix tree from a key set alone (sorted, prefix-free).
func canonFromKeys(keys [][]byte, depth int, sb *strings.Builder) {
	if len(keys) == 1 {
		fmt.Fprintf(sb, "L(%x)", keys[0])
		return
	}
	first, last := keys[0], keys[len(keys)-1]
	l := depth
	for l < len(first) && l < len(last) && first[l] == last[l] {
		l++
	}
	fmt.Fprintf(sb, "N(%d:%x){", l-depth, first[depth:l])
	i := 0
	for i < len(keys) {
		if l >= len(keys[i]) {
			// a key that is a proper prefix of another: not prefix-free
			fmt.Fprintf(sb, "!prefix(%x)", keys[i])
			i++
			continue
		}
		b := keys[i][l]
		j := i
		for j < len(keys) && l < len(keys[j]) && keys[j][l] == b {
			j++
		}
		fmt.Fprintf(sb, "%02x>", b)
		canonFromKeys(keys[i:j], l+1, sb)
		i = j
	}
	sb.WriteString("}")
}

func canonFromDump(d *art.VerifTree, sb *strings.Builder) {
	var walk func(in *art.VerifInner, depth int)
	walk = func(in *art.VerifInner, depth int) {
		pl := int(in.PrefixLen)
		var seg []byte
		if rep := firstLeaf(in); rep != nil && len(rep.TKey) >= depth+pl {
			seg = rep.TKey[depth : depth+pl]
		}
		fmt.Fprintf(sb, "N(%d:%x){", pl, seg)
		for _, c := range in.Children {
			fmt.Fprintf(sb, "%02x>", c.Byte)
			if c.Leaf != nil {
				fmt.Fprintf(sb, "L(%x)", c.Leaf.TKey)
			} else if c.Inner != nil {
				walk(c.Inner, depth+pl+1)
			}
		}
		sb.WriteString("}")
	}
	switch {
	case d.RootLeaf != nil:
		fmt.Fprintf(sb, "L(%x)", d.RootLeaf.TKey)
	case d.RootInner != nil:
		walk(d.RootInner, 0)
	}
}

// CheckShape runs the C11 oracle on the current tree.
func (s *Session[K]) CheckShape(d *art.VerifTree) {
	errs, leaves := shapeErrors(d)
	s.Res.Evaluations++
	s.Res.Inc("shape_checks")
	if len(errs) > 0 {
		s.violate("index not well-formed after the last operation", "well-formed compressed radix tree", strings.Join(errs, "; "), "")
		return
	}
	// every model key is filed where its bytes say, with its current value
	want := s.M.Sorted()
	if len(leaves) != len(want) {
		s.violate("number of reachable keys differs from the stored keys", fmt.Sprint(len(want)), fmt.Sprint(len(leaves)), "")
		return
	}
	keys := make([][]byte, len(leaves))
	for i, la := range leaves {
		keys[i] = la.l.TKey
		v, _ := la.l.Value.(uint64)
		e := want[i]
		// which bytes encode a key is the library's business (only their order and
		// prefix-freeness matter here): the oracle's own encoder is used to report, not to judge
		if s.K.Enc != nil {
			if enc := s.K.Enc(e.Key); !bytes.Equal(enc, la.l.TKey) {
				s.Res.Inc("observe_only_leaf_encoding_differs_from_oracle_encoder")
			}
		}
		if v != e.Val {
			s.violate(fmt.Sprintf("leaf #%d (index order) carries the wrong value", i), fmt.Sprintf("%s=%d", s.K.Show(e.Key), e.Val), fmt.Sprintf("%x=%d", la.l.Key, v), "")
			return
		}
	}
	if !sort.SliceIsSorted(keys, func(i, j int) bool { return bytes.Compare(keys[i], keys[j]) < 0 }) {
		s.violate("leaves are not in ascending byte order of their transformed keys", "ascending", "unsorted", "")
		return
	}
	// canonical shape from the key set alone
	if len(keys) > 0 {
		var a, b strings.Builder
		canonFromKeys(keys, 0, &a)
		canonFromDump(d, &b)
		if a.String() != b.String() {
			s.violate("shape differs from the compressed radix tree of the key set", trunc(a.String()), trunc(b.String()), "")
			return
		}
	}
	// census of what was checked
	s.shapeCensus(d)
}

func trunc(s string) string {
	if len(s) > 1500 {
		return s[:1500] + "..."
	}
	return s
}

type nodeInfo struct {
	kind int
	pl   uint32
	n    int
}

func collect(d *art.VerifTree) (map[uintptr]nodeInfo, [4]int, int) {
	m := map[uintptr]nodeInfo{}
	var kc [4]int
	maxDepth := 0
	var walk func(in *art.VerifInner, depth int)
	walk = func(in *art.VerifInner, depth int) {
		m[in.Addr] = nodeInfo{in.Kind, in.PrefixLen, len(in.Children)}
		switch in.Kind {
		case 4:
			kc[0]++
		case 16:
			kc[1]++
		case 48:
			kc[2]++
		case 256:
			kc[3]++
		}
		maxDepth = max(maxDepth, depth)
		for _, c := range in.Children {
			if c.Inner != nil {
				walk(c.Inner, depth+1)
			}
		}
	}
	if d.RootInner != nil {
		walk(d.RootInner, 1)
	}
	return m, kc, maxDepth
}

func plClass(pl uint32) string {
	switch {
	case pl < 10:
		return "lt10"
	case pl == 10:
		return "eq10"
	}
	return "gt10"
}

func (s *Session[K]) shapeCensus(d *art.VerifTree) {
	m, kc, depth := collect(d)
	s.Res.Max("max_inner_depth", int64(depth))
	for _, ni := range m {
		s.Res.Max("max_path_len", int64(ni.pl))
		if ni.pl > 10 {
			s.Res.Inc("nodes_with_optimistic_path_seen")
		}
		if ni.n == 256 {
			s.Res.Inc("full_256_nodes_seen")
		}
	}
	s.Res.Count("nodes_class4_seen", int64(kc[0]))
	s.Res.Count("nodes_class16_seen", int64(kc[1]))
	s.Res.Count("nodes_class48_seen", int64(kc[2]))
	s.Res.Count("nodes_class256_seen", int64(kc[3]))
}

// classifyInsert names the insertion path the new key takes through the
// index as it was before the insert.
func classifyInsert(before *art.VerifTree, tkey []byte) string {
	if before.RootLeaf == nil && before.RootInner == nil {
		return "empty_tree"
	}
	if before.RootLeaf != nil {
		return "leaf_split"
	}
	in := before.RootInner
	depth := 0
	for {
		pl := int(in.PrefixLen)
		rep := firstLeaf(in)
		if rep == nil || len(rep.TKey) < depth+pl {
			return "unclassified"
		}
		seg := rep.TKey[depth : depth+pl]
		for i := 0; i < pl; i++ {
			if depth+i >= len(tkey) || tkey[depth+i] != seg[i] {
				if pl > 10 {
					return "path_split_optimistic"
				}
				return "path_split"
			}
		}
		depth += pl
		if depth >= len(tkey) {
			return "unclassified"
		}
		var next *art.VerifChild
		for i := range in.Children {
			if in.Children[i].Byte == tkey[depth] {
				next = &in.Children[i]
			}
		}
		if next == nil {
			return "child_add"
		}
		if next.Leaf != nil {
			return "leaf_split"
		}
		in = next.Inner
		depth++
	}
}

// afterMutation: census of the structural transition, C06 path
// classification, C11 shape check.
func (s *Session[K]) afterMutation(before *art.VerifTree, isInsert, changed bool, val uint64) {
	after := s.dump()
	if s.Cfg.Has(MCensus) {
		bm, bk, _ := collect(before)
		am, ak, _ := collect(after)
		d := [4]int{ak[0] - bk[0], ak[1] - bk[1], ak[2] - bk[2], ak[3] - bk[3]}
		switch d {
		case [4]int{-1, 1, 0, 0}:
			s.Res.Inc("tr_grow_4_16")
		case [4]int{0, -1, 1, 0}:
			s.Res.Inc("tr_grow_16_48")
		case [4]int{0, 0, -1, 1}:
			s.Res.Inc("tr_grow_48_256")
		case [4]int{1, -1, 0, 0}:
			s.Res.Inc("tr_shrink_16_4")
		case [4]int{0, 1, -1, 0}:
			s.Res.Inc("tr_shrink_48_16")
		case [4]int{0, 0, 1, -1}:
			s.Res.Inc("tr_shrink_256_48")
		case [4]int{1, 0, 0, 0}:
			s.Res.Inc("tr_new_node4")
		case [4]int{-1, 0, 0, 0}:
			s.Res.Inc("tr_node4_removed")
		}
		for addr, a := range am {
			if b, ok := bm[addr]; ok && b.kind == a.kind {
				if a.pl > b.pl {
					s.Res.Inc("tr_merge_path_" + plClass(a.pl))
				} else if a.pl < b.pl {
					s.Res.Inc("tr_split_path_old_" + plClass(b.pl))
				}
			}
		}
	}
	if isInsert && changed && s.Cfg.Has(MSize|MCensus) {
		// find the new leaf by its unique value id
		var tkey []byte
		var find func(in *art.VerifInner)
		find = func(in *art.VerifInner) {
			for _, c := range in.Children {
				if c.Leaf != nil {
					if v, _ := c.Leaf.Value.(uint64); v == val {
						tkey = c.Leaf.TKey
					}
				} else if c.Inner != nil && tkey == nil {
					find(c.Inner)
				}
			}
		}
		if after.RootLeaf != nil {
			tkey = after.RootLeaf.TKey
		} else if after.RootInner != nil {
			find(after.RootInner)
		}
		if tkey != nil {
			s.Res.Inc("insert_path_" + classifyInsert(before, tkey))
		} else {
			s.Res.Inc("insert_path_unclassified")
		}
	}
	if s.Cfg.Has(MSize) {
		s.CheckSize(false)
		if !s.Dead && after.Leaves != s.M.Len() {
			s.Res.Inc("observe_only_leaf_count_mismatch")
		}
	}
	if s.Cfg.Has(MShape) && !s.Dead {
		s.CheckShape(after)
	}
	s.prev = after
}
