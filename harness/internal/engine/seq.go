package engine

import (
	"fmt"
	"iter"
	"strings"

	"verif/internal/rng"
)

// C14: instrumented yield over one sequence value.

type seqRun[K any] struct {
	got        []pair[K]
	afterFalse int
}

// runSeq calls the sequence function directly. stopAt < 0: never stop;
// otherwise yield returns false when it receives element number stopAt
// (0-based). nested, when non-nil, is run inside yield at element nestAt.
func runSeq[K any](seq iter.Seq2[K, uint64], stopAt int, nestAt int, nested func()) seqRun[K] {
	var r seqRun[K]
	stopped := false
	i := 0
	seq(func(k K, v uint64) bool {
		if stopped {
			r.afterFalse++
			return false
		}
		r.got = append(r.got, pair[K]{k, v})
		if nested != nil && i == nestAt {
			nested()
		}
		if stopAt >= 0 && i == stopAt {
			stopped = true
			i++
			return false
		}
		i++
		return len(r.got) < 1<<20 // cycle guard
	})
	return r
}

func (s *Session[K]) samePairs(a, b []pair[K]) bool {
	if len(a) != len(b) {
		return false
	}
	for i := range a {
		if s.K.ID(a[i].k) != s.K.ID(b[i].k) || a[i].v != b[i].v {
			return false
		}
	}
	return true
}

// noise runs read-only calls between two passes over one sequence value: the
// tree is unchanged by them, so the sequence must still deliver the same.
func (s *Session[K]) noise(r *rng.R) {
	if s.Dead || !r.Chance(1, 2) {
		return
	}
	s.guard("read-only calls between passes", func() {
		for i := 0; i < 3; i++ {
			k := s.K.Pool(r, 1)[0]
			if st, ok := s.pickStored(r); ok && r.Chance(1, 2) {
				k = s.K.Near(r, st)
			}
			s.T.Search(s.fresh(k))
			if d := s.K.Near(r, k); !s.M.Has(d) {
				s.T.Delete(s.fresh(d)) // a no-op: the key is absent
			}
		}
		s.T.Minimum()
		s.T.Maximum()
		if st, ok := s.pickStored(r); ok {
			if s.K.HasPrefix {
				for range s.T.Prefix(s.fresh(st)) {
					break
				}
			}
			if s.K.HasRange || s.K.Family == "collation" {
				if ok2, _ := s.rangeArgsOK(st, st); ok2 {
					for range s.T.Range(s.fresh(st), s.fresh(st)) {
						break
					}
				}
			}
		}
	})
	s.Res.Inc("seq_noise_rounds")
}

func (s *Session[K]) rangeArgsOK(a, b K) (bool, string) {
	if s.K.RangeOK == nil {
		return true, ""
	}
	return s.K.RangeOK(a, b)
}

func (s *Session[K]) seqProtocol(name string, mk func() iter.Seq2[K, uint64], r *rng.R) {
	if s.Dead {
		return
	}
	s.log("%s: sequence protocol", name)
	var seq iter.Seq2[K, uint64]
	if s.guard(name, func() { seq = mk() }) {
		return
	}
	var ref seqRun[K]
	if s.guard(name+" first full pass", func() { ref = runSeq(seq, -1, -1, nil) }) {
		return
	}
	R := ref.got
	s.Res.Evaluations++
	method := name
	if i := strings.IndexByte(name, '('); i >= 0 {
		method = name[:i]
	}
	s.Res.Inc("seq_values_" + method)
	// stop positions
	var stops []int
	if len(R) <= 64 {
		for i := 0; i < len(R); i++ {
			stops = append(stops, i)
		}
	} else {
		stops = []int{0, 1, 2, len(R) / 2, len(R) - 2, len(R) - 1}
		for i := 0; i < 6; i++ {
			stops = append(stops, r.Intn(len(R)))
		}
	}
	for _, st := range stops {
		var run seqRun[K]
		if s.guard(fmt.Sprintf("%s stopped at element %d", name, st), func() { run = runSeq(seq, st, -1, nil) }) {
			return
		}
		s.Res.Evaluations++
		s.Res.Inc("seq_early_stops")
		if run.afterFalse != 0 {
			s.violate(fmt.Sprintf("%s: yield was called %d more time(s) after it returned false at element %d", name, run.afterFalse, st), "0 further callbacks", fmt.Sprint(run.afterFalse), "")
			return
		}
		if !s.samePairs(run.got, R[:st+1]) {
			s.violate(fmt.Sprintf("%s: pass stopped at element %d did not deliver the first %d elements of the first pass", name, st, st+1), s.showPairs(R[:st+1]), s.showPairs(run.got), "")
			return
		}
		// after an abandoned pass the same value must deliver everything again
		if st%7 == 0 || len(stops) < 12 {
			s.noise(r)
			var again seqRun[K]
			if s.guard(name+" re-iteration after early stop", func() { again = runSeq(seq, -1, -1, nil) }) {
				return
			}
			s.Res.Inc("seq_redrains")
			if !s.samePairs(again.got, R) {
				s.violate(fmt.Sprintf("%s: re-iterating the same sequence value after stopping at element %d is not identical to the first complete pass", name, st), s.showPairs(R), s.showPairs(again.got), "")
				return
			}
		}
	}
	// plain re-iterations
	for i := 0; i < 1+r.Intn(3); i++ {
		s.noise(r)
		var again seqRun[K]
		if s.guard(name+" re-iteration", func() { again = runSeq(seq, -1, -1, nil) }) {
			return
		}
		s.Res.Evaluations++
		s.Res.Inc("seq_redrains")
		if !s.samePairs(again.got, R) {
			s.violate(fmt.Sprintf("%s: re-iteration #%d of the same sequence value is not identical to the first complete pass", name, i+2), s.showPairs(R), s.showPairs(again.got), "")
			return
		}
	}
	// two consumers of one value: a full drain nested inside a pass
	if len(R) > 0 {
		at := r.Intn(len(R))
		var inner seqRun[K]
		var outer seqRun[K]
		if s.guard(name+" nested consumer", func() {
			outer = runSeq(seq, -1, at, func() { inner = runSeq(seq, -1, -1, nil) })
		}) {
			return
		}
		s.Res.Inc("seq_nested_consumers")
		if !s.samePairs(inner.got, R) || !s.samePairs(outer.got, R) {
			s.violate(fmt.Sprintf("%s: two interleaved consumers of one sequence value (inner started at element %d) do not both see the full result", name, at), s.showPairs(R), "outer "+s.showPairs(outer.got)+" inner "+s.showPairs(inner.got), "")
			return
		}
	}
}

func (s *Session[K]) CheckSeqProtocol(r *rng.R) {
	n := s.M.Len()
	s.seqProtocol("All", func() iter.Seq2[K, uint64] { return s.T.All() }, r)
	s.seqProtocol("Backward", func() iter.Seq2[K, uint64] { return s.T.Backward() }, r)
	for _, kk := range []uint{0, 1, uint(max(n-1, 0)), uint(n), uint(n + 2), uint(r.Intn(n + 1))} {
		kk := kk
		s.seqProtocol(fmt.Sprintf("TopK(%d)", kk), func() iter.Seq2[K, uint64] { return s.T.TopK(kk) }, r)
		s.seqProtocol(fmt.Sprintf("BottomK(%d)", kk), func() iter.Seq2[K, uint64] { return s.T.BottomK(kk) }, r)
	}
	if (s.K.HasRange || s.K.Family == "collation") && n > 0 {
		for i := 0; i < 3 && !s.Dead; i++ {
			a, _ := s.pickStored(r)
			b, _ := s.pickStored(r)
			if i == 2 {
				b = s.K.Near(r, b)
			}
			if ok, _ := s.rangeArgsOK(a, b); !ok {
				continue
			}
			s.seqProtocol(fmt.Sprintf("Range(%s,%s)", s.K.Show(a), s.K.Show(b)), func() iter.Seq2[K, uint64] { return s.T.Range(s.fresh(a), s.fresh(b)) }, r)
		}
	}
	if s.K.HasRange && n == 0 {
		p := s.K.Pool(r, 2)
		if ok, _ := s.K.RangeOK(p[0], p[1]); ok {
			s.seqProtocol("Range on empty tree", func() iter.Seq2[K, uint64] { return s.T.Range(p[0], p[1]) }, r)
		}
	}
	if s.K.HasPrefix {
		var z K
		ps := []K{z}
		if st, ok := s.pickStored(r); ok {
			qs := s.K.PrefixQueries(r, st)
			// the shortest cuts (most matches, most rejected look-alikes) and two random ones;
			// only consistency between passes is judged here, so arguments outside C04's
			// content scope are fine
			ps = append(ps, qs[min(1, len(qs)-1)], rng.Pick(r, qs), rng.Pick(r, qs))
		}
		for _, p := range ps {
			p := p
			s.seqProtocol(fmt.Sprintf("Prefix(%s)", s.K.Show(p)), func() iter.Seq2[K, uint64] { return s.T.Prefix(s.fresh(p)) }, r)
		}
	}
}
