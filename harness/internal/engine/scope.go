package engine

import (
	"verif/internal/kinds"
	"verif/internal/rng"
)

// scopePool converts the ASCII-only collation pool into the kind's key type.
func scopePool[K any](k *kinds.Kind[K], r *rng.R, n int) []K {
	ss := kinds.CollPrefixPool(r, n)
	out := make([]K, 0, len(ss))
	for _, s := range ss {
		var kk K
		switch p := any(&kk).(type) {
		case *string:
			*p = s
		case *[]byte:
			*p = []byte(s)
		case *[]rune:
			*p = []rune(s)
		default:
			return k.Pool(r, n)
		}
		out = append(out, kk)
	}
	return out
}
