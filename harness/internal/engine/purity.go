package engine

import (
	"fmt"
	"iter"

	art "github.com/Clement-Jean/go-art"

	"verif/internal/ev"
	"verif/internal/rng"
)

// digests of a dump: canonical (decides C15) and strict (raw lanes, stale
// slots, addresses, junk inline bytes: reported only).
func dumpDigests(d *art.VerifTree, subst map[uint64]uint64) (canon, strict uint64) {
	c, st := ev.NewHasher(), ev.NewHasher()
	c.U64(uint64(d.Size))
	leaf := func(l *art.VerifLeaf) {
		v, _ := l.Value.(uint64)
		if nv, ok := subst[v]; ok {
			v = nv
		}
		c.Bytes(l.Key)
		c.Bytes(l.TKey)
		c.U64(v)
		st.U64(uint64(l.Addr))
	}
	var walk func(in *art.VerifInner)
	walk = func(in *art.VerifInner) {
		c.U64(uint64(in.Kind))
		c.U64(uint64(in.ChildrenLen))
		c.U64(uint64(in.PrefixLen))
		c.Bytes(in.Prefix[:min(int(in.PrefixLen), len(in.Prefix))])
		for _, f := range in.Faults {
			c.Str(f)
		}
		st.U64(uint64(in.Addr))
		st.Bytes(in.Prefix[:])
		st.Bytes(in.Lanes)
		st.U64(uint64(in.StaleSlots))
		for _, ch := range in.Children {
			c.Byte(ch.Byte)
			c.U64(uint64(ch.Slot))
			switch {
			case ch.Leaf != nil:
				c.Byte('L')
				leaf(ch.Leaf)
			case ch.Inner != nil:
				c.Byte('N')
				walk(ch.Inner)
			default:
				c.Byte('0')
			}
		}
		c.Byte('}')
	}
	switch {
	case d.RootLeaf != nil:
		c.Byte('L')
		leaf(d.RootLeaf)
	case d.RootInner != nil:
		c.Byte('N')
		walk(d.RootInner)
	}
	for _, f := range d.Faults {
		c.Str(f)
	}
	cs := c.Sum()
	st.U64(cs)
	return cs, st.Sum()
}

// bracket runs one read-only (or no-op) call between two dumps.
func (s *Session[K]) bracket(what string, f func()) {
	if s.Dead {
		return
	}
	bc, bs := dumpDigests(s.dump(), nil)
	s.log("%s", what)
	if s.guard(what, f) {
		return
	}
	ac, as := dumpDigests(s.dump(), nil)
	s.Res.Evaluations++
	s.Res.Inc("purity_bracketed_calls")
	if ac != bc {
		s.violate("a read-only or no-op call changed the tree", fmt.Sprintf("digest %#x", bc), fmt.Sprintf("digest %#x after %s", ac, what), "")
		return
	}
	if as != bs {
		s.Res.Inc("purity_strict_digest_diffs_reported")
	}
}

func drainN[K any](seq iter.Seq2[K, uint64], n int) {
	i := 0
	for range seq {
		i++
		if n >= 0 && i >= n {
			break
		}
	}
}

// CheckPurity brackets every kind of query and no-op update.
func (s *Session[K]) CheckPurity(r *rng.R) {
	// first: did the read-only calls of earlier check points affect what the tree answers now?
	s.CheckQueryIndependence()
	if s.Dead {
		return
	}
	pool := s.K.Pool(r, 4)
	st, has := s.pickStored(r)
	probes := []struct {
		class string
		k     K
	}{{"pool", pool[0]}, {"pool", pool[1]}}
	if has {
		probes = append(probes,
			struct {
				class string
				k     K
			}{"present", st},
			struct {
				class string
				k     K
			}{"near", s.K.Near(r, st)},
			struct {
				class string
				k     K
			}{"near", s.K.Near(r, st)},
		)
	}
	for _, d := range s.recentlyDeleted {
		if !s.M.Has(d) {
			probes = append(probes, struct {
				class string
				k     K
			}{"recently_deleted", d})
		}
	}
	for _, p := range probes {
		k := p.k
		s.bracket(fmt.Sprintf("Search(%s)", s.K.Show(k)), func() { s.T.Search(s.fresh(k)) })
		s.Res.Inc("purity_search_" + p.class)
		if !s.M.Has(k) {
			s.bracket(fmt.Sprintf("Delete(%s) [absent]", s.K.Show(k)), func() {
				if s.T.Delete(s.fresh(k)) {
					panic("harness: Delete of an absent key returned true")
				}
			})
			s.Res.Inc("purity_delete_absent_" + p.class)
		}
	}
	s.bracket("Minimum()", func() { s.T.Minimum() })
	s.bracket("Maximum()", func() { s.T.Maximum() })
	s.bracket("Size()", func() { s.T.Size() })
	n := s.M.Len()
	stop := -1
	if n > 0 && r.Chance(1, 2) {
		stop = 1 + r.Intn(n)
	}
	s.bracket(fmt.Sprintf("All() stop=%d", stop), func() { drainN(s.T.All(), stop) })
	s.bracket(fmt.Sprintf("Backward() stop=%d", stop), func() { drainN(s.T.Backward(), stop) })
	kk := uint(r.Intn(n + 2))
	s.bracket(fmt.Sprintf("TopK(%d)", kk), func() { drainN(s.T.TopK(kk), stop) })
	s.bracket(fmt.Sprintf("BottomK(%d)", kk), func() { drainN(s.T.BottomK(kk), stop) })
	if s.K.HasRange && n > 0 {
		a, b := pool[2], pool[3]
		if has && r.Chance(2, 3) {
			a = st
			if r.Chance(1, 2) {
				b = s.K.Near(r, st)
			}
		}
		if ok, _ := s.K.RangeOK(a, b); ok {
			s.bracket(fmt.Sprintf("Range(%s,%s) stop=%d", s.K.Show(a), s.K.Show(b), stop), func() { drainN(s.T.Range(s.fresh(a), s.fresh(b)), stop) })
		}
	}
	if s.K.HasPrefix && s.K.Family == "alpha" {
		p := pool[2]
		if has {
			qs := s.K.PrefixQueries(r, st)
			p = rng.Pick(r, qs)
		}
		s.bracket(fmt.Sprintf("Prefix(%s) stop=%d", s.K.Show(p), stop), func() { drainN(s.T.Prefix(s.fresh(p)), stop) })
	}
	// slice keys: a shortened re-slice of a key the tree itself yielded, used as a
	// lookup argument (it shares memory with the stored key)
	if s.K.Shorten != nil && n > 0 && !s.Dead {
		var got K
		have := false
		idx, want := 0, r.Intn(n)
		if s.guard("All", func() {
			for k := range s.T.All() {
				if idx == want {
					got, have = k, true
					break
				}
				idx++
			}
		}) {
			return
		}
		if have && s.K.KeyLen(got) > 0 {
			arg := s.K.Shorten(got, r.Intn(s.K.KeyLen(got)))
			s.bracket(fmt.Sprintf("Search(<yielded key %s re-sliced to %d bytes>)", s.K.Show(got), s.K.KeyLen(arg)), func() { s.T.Search(arg) })
			s.Res.Inc("purity_search_resliced_yielded_key")
		}
	}
	// Insert of a present key changes nothing but that key's value
	if has && !s.Dead {
		old, _ := s.M.Get(st)
		nv := s.nextVal + 1
		before, _ := dumpDigests(s.dump(), map[uint64]uint64{old: nv})
		s.Insert(st) // assigns nv
		if s.Dead {
			return
		}
		after, _ := dumpDigests(s.dump(), nil)
		s.Res.Inc("purity_overwrite_checks")
		if before != after {
			s.violate("Insert of a present key changed more than that key's value", fmt.Sprintf("digest %#x", before), fmt.Sprintf("digest %#x", after), "")
		}
	}
}

// CheckQueryIndependence: "any number of read-only calls may be interleaved
// anywhere in a history without affecting any later result". The mutating
// calls of this session (which was queried heavily in between) are replayed
// into a fresh tree that has never been queried; every observable result of
// the two trees must then be identical.
func (s *Session[K]) CheckQueryIndependence() {
	if len(s.muts) >= 4096 || s.Dead {
		return
	}
	fresh := s.K.New()
	if s.guard("replay of the mutating calls into a fresh tree", func() {
		for _, m := range s.muts {
			if m.del {
				fresh.Delete(s.K.Clone(m.k))
			} else {
				fresh.Insert(s.K.Clone(m.k), m.v)
			}
		}
	}) {
		return
	}
	s.log("compare with a never-queried tree built by the same %d mutating calls", len(s.muts))
	s.Res.Evaluations++
	s.Res.Inc("purity_query_independence_checks")
	type obs struct {
		what string
		a, b string
	}
	var diffs []obs
	cmp := func(what, a, b string) {
		if a != b && len(diffs) < 3 {
			diffs = append(diffs, obs{what, a, b})
		}
	}
	show3 := func(k K, v uint64, ok bool) string {
		if !ok {
			return "none"
		}
		return fmt.Sprintf("%s=%d", s.K.Show(k), v)
	}
	if s.guard("queries on both trees", func() {
		k1, v1, ok1 := s.T.Minimum()
		k2, v2, ok2 := fresh.Minimum()
		cmp("Minimum()", show3(k1, v1, ok1), show3(k2, v2, ok2))
		k1, v1, ok1 = s.T.Maximum()
		k2, v2, ok2 = fresh.Maximum()
		cmp("Maximum()", show3(k1, v1, ok1), show3(k2, v2, ok2))
		cmp("Size()", fmt.Sprint(s.T.Size()), fmt.Sprint(fresh.Size()))
		collect := func(seq iter.Seq2[K, uint64]) string {
			var ps []pair[K]
			for k, v := range seq {
				ps = append(ps, pair[K]{k, v})
				if len(ps) > s.M.Len()+1 {
					break
				}
			}
			return s.showPairs(ps)
		}
		cmp("All()", collect(s.T.All()), collect(fresh.All()))
		cmp("Backward()", collect(s.T.Backward()), collect(fresh.Backward()))
		cmp("TopK(2)", collect(s.T.TopK(2)), collect(fresh.TopK(2)))
		cmp("BottomK(2)", collect(s.T.BottomK(2)), collect(fresh.BottomK(2)))
		for _, e := range s.M.Sorted() {
			a, oka := s.T.Search(s.K.Clone(e.Key))
			b, okb := fresh.Search(s.K.Clone(e.Key))
			cmp("Search("+s.K.Show(e.Key)+")", fmt.Sprint(a, oka), fmt.Sprint(b, okb))
		}
		for _, d := range s.recentlyDeleted {
			a, oka := s.T.Search(s.K.Clone(d))
			b, okb := fresh.Search(s.K.Clone(d))
			cmp("Search("+s.K.Show(d)+")", fmt.Sprint(a, oka), fmt.Sprint(b, okb))
		}
	}) {
		return
	}
	if len(diffs) > 0 {
		d := diffs[0]
		s.violate("interleaved read-only calls affected a later result: "+d.what+" differs between this tree and a never-queried tree built by the same mutating calls",
			"never-queried tree: "+d.b, "queried tree: "+d.a, "")
	}
}
