package engine

import (
	"iter"

	art "github.com/Clement-Jean/go-art"

	"verif/internal/ev"
	"verif/internal/kinds"
	"verif/internal/ref"
	"verif/internal/rng"
)

// Stepper is a type-erased session driven one operation at a time; used to
// interleave trees of mixed kinds on one goroutine (C12) or to run private
// trees on many goroutines (C16).
type Stepper interface {
	// Step applies the next operation of this tree's own history (with the
	// session's monitors); it returns false when the history is exhausted or
	// the session died.
	Step() bool
	Dead() bool
	Name() string
	// Chain is the running digest of every result and of the canonical dump
	// after every step (equal chains = equal behaviour at every step).
	Chain() uint64
	Steps() int
	// Addrs returns the addresses of the inner nodes currently in the tree, by class.
	Addrs() map[uintptr]int
	Len() int
	// IterNested drains All() and compares it with the reference; when the pass
	// reaches element number at, nested (if any) is run inside the loop body.
	IterNested(at int, nested func())
	// PendingSeqs creates sequence values, runs between, then drains and compares them.
	PendingSeqs(r *rng.R, between func())
	// AbandonDescending starts a descending pass (Backward / TopK) and leaves it early.
	AbandonDescending()
}

type stepper[K any] struct {
	s      *Session[K]
	r      *rng.R
	pool   []K
	phases []phase
	pi, pn int
	steps  int
	chain  *ev.Hasher
	dumps  bool

	// empty twin: a fresh tree fed the same continuation once this tree has
	// been emptied by deletions
	twin      *Session[K]
	twinR     *rng.R
	twinChain *ev.Hasher
	selfChain *ev.Hasher
}

// NewStepper builds the per-tree history generator. The history is a pure
// function of (seed, name): the same stepper run alone produces the same
// operations.
func NewStepper[K any](k *kinds.Kind[K], cfg *Config, res *ev.Result, name string, seed uint64, nOps, poolN int, dumps bool) Stepper {
	r := unitRng(seed, name)
	st := &stepper[K]{s: NewSession(k, cfg, res, name), r: r, chain: ev.NewHasher(), dumps: dumps}
	st.pool = k.Pool(r, poolN)
	st.phases = randomPhases(r, nOps)
	st.s.every = 5
	return st
}

func (st *stepper[K]) Name() string { return st.s.Unit }
func (st *stepper[K]) Dead() bool   { return st.s.Dead || (st.twin != nil && st.twin.Dead) }
func (st *stepper[K]) Steps() int   { return st.steps }
func (st *stepper[K]) Len() int     { return st.s.M.Len() }
func (st *stepper[K]) Chain() uint64 {
	return st.chain.Sum()
}

func canonWithClasses(d *art.VerifTree) uint64 {
	c, _ := dumpDigests(d, nil)
	return c
}

func (st *stepper[K]) Step() bool {
	for st.pi < len(st.phases) && st.pn >= st.phases[st.pi].n {
		st.pi++
		st.pn = 0
	}
	if st.pi >= len(st.phases) || st.Dead() {
		return false
	}
	ph := st.phases[st.pi]
	st.pn++
	st.steps++
	wasEmpty := st.s.M.Len() == 0
	var tr *rng.R
	if st.twin != nil {
		c := *st.r // identical stream for the twin
		tr = &c
	}
	st.s.StepOp(st.r, st.pool, ph)
	if st.s.Dead {
		return false
	}
	if st.steps%st.s.every == 0 {
		st.s.After(st.r)
	}
	st.chain.U64(st.s.Trace())
	if st.dumps {
		st.chain.U64(canonWithClasses(st.s.dump()))
	}
	if st.twin != nil {
		st.twin.StepOp(tr, st.pool, ph)
		if st.twin.Dead {
			return false
		}
		st.s.Res.Inc("empty_twin_steps")
		a, b := st.s.dump(), st.twin.dump()
		ca, cb := canonWithClasses(a), canonWithClasses(b)
		// values (unique ids) differ between the two trees by a constant offset: compare shapes via structDigest
		sa, sb := structDigestNoLanes(a), structDigestNoLanes(b)
		_ = ca
		_ = cb
		if sa != sb {
			st.s.violate("a tree emptied by deletions no longer behaves like a newly created one: structure differs from a fresh tree fed the same operations",
				"identical structural dump (size classes, fan-out, paths, branch bytes, keys; raw unoccupied lanes excluded)", "dumps differ", "")
			return false
		}
		if st.s.T.Size() != st.twin.T.Size() {
			st.s.violate("a tree emptied by deletions no longer behaves like a newly created one: Size differs from a fresh tree fed the same operations",
				"equal sizes", "sizes differ", "")
			return false
		}
	}
	if !wasEmpty && st.s.M.Len() == 0 && st.steps > 1 {
		// emptied by a deletion: start (or restart) the fresh twin
		st.twin = NewSession(st.s.K, st.s.Cfg, st.s.Res, st.s.Unit+"/fresh-twin")
		st.s.Res.Inc("empty_twins_started")
	}
	return true
}

func (st *stepper[K]) Addrs() map[uintptr]int {
	out := map[uintptr]int{}
	d := st.s.dump()
	var walk func(in *art.VerifInner)
	walk = func(in *art.VerifInner) {
		out[in.Addr] = in.Kind
		for _, c := range in.Children {
			if c.Inner != nil {
				walk(c.Inner)
			}
		}
	}
	if d.RootInner != nil {
		walk(d.RootInner)
	}
	return out
}

// Reader is a read-only view of a quiescent shared tree with its own copy of
// the reference, its own result and its own key buffers (C16 S2/S3).
type Reader interface {
	// Round runs one mix of read-only queries and compares every answer with
	// the sequentially precomputed reference.
	Round(r *rng.R)
	Dead() bool
}

type sharedSeq[K any] struct {
	name string
	seq  iter.Seq2[K, uint64]
	want []*ref.Entry[K]
}

type reader[K any] struct {
	s    *Session[K]
	seqs []sharedSeq[K]
}

func (rd *reader[K]) Dead() bool { return rd.s.Dead }

func (rd *reader[K]) Round(r *rng.R) {
	s := rd.s
	if len(rd.seqs) > 0 && r.Chance(1, 4) {
		// one sequence value created before the goroutines started, consumed by all of them at once
		sq := rd.seqs[r.Intn(len(rd.seqs))]
		stop := -1
		if len(sq.want) > 0 && r.Chance(1, 3) {
			stop = r.Intn(len(sq.want))
		}
		var got []pair[K]
		if s.guard("shared "+sq.name, func() {
			i := 0
			for k, v := range sq.seq {
				got = append(got, pair[K]{k, v})
				if i == stop || len(got) > len(sq.want)+1 {
					break
				}
				i++
			}
		}) {
			return
		}
		s.Res.Evaluations++
		s.Res.Inc("shared_sequence_value_passes")
		want := sq.want
		if stop >= 0 {
			want = want[:stop+1]
		}
		if !s.equalSeq(got, want) {
			s.violate("a pass over a sequence value shared by several goroutines ("+sq.name+") differs from the sequential result", s.showEntries(want), s.showPairs(got), "")
		}
		return
	}
	switch r.Intn(6) {
	case 0:
		s.CheckIter()
	case 1:
		s.CheckExtremes(r)
	case 2:
		if s.K.HasRange {
			s.CheckRanges(r)
		} else {
			s.CheckSize(true)
		}
	case 3:
		if s.K.HasPrefix {
			s.CheckPrefixes(r)
		} else {
			s.CheckSize(true)
		}
	default:
		for i := 0; i < 8 && !s.Dead; i++ {
			if st, ok := s.pickStored(r); ok {
				if r.Chance(1, 2) {
					s.Search(st)
				} else {
					s.Search(s.K.Near(r, st))
				}
			}
		}
	}
}

// Shared is a tree built sequentially and then only read.
type Shared interface {
	NewReader(res *ev.Result, name string) Reader
	Len() int
	Name() string
}

type shared[K any] struct {
	s    *Session[K]
	seqs []sharedSeq[K]
}

func (sh *shared[K]) Len() int     { return sh.s.M.Len() }
func (sh *shared[K]) Name() string { return sh.s.K.Name }
func (sh *shared[K]) NewReader(res *ev.Result, name string) Reader {
	cfg := *sh.s.Cfg
	cfg.Mons = MMap | MIter | MRange | MPrefix | MExt | MSize
	rs := &Session[K]{K: sh.s.K, Cfg: &cfg, Res: res, Unit: name, every: 1, trace: ev.NewHasher()}
	rs.T = sh.s.T
	rs.M = sh.s.M.Clone()
	return &reader[K]{s: rs, seqs: sh.seqs}
}

// BuildShared builds a tree sequentially from one history (monitors on).
func BuildShared[K any](k *kinds.Kind[K], cfg *Config, res *ev.Result, name string, seed uint64, nOps, poolN int) Shared {
	s := NewSession(k, cfg, res, name)
	r := unitRng(seed, name)
	s.RunHistory(r, nOps, poolN)
	sh := &shared[K]{s: s}
	if s.Dead || s.M.Len() == 0 {
		return sh
	}
	// sequence values created once, sequentially, with their sequential results
	sorted := append([]*ref.Entry[K]{}, s.M.Sorted()...)
	rev := reversed(sorted)
	n := len(sorted)
	sh.seqs = append(sh.seqs,
		sharedSeq[K]{"All()", s.T.All(), sorted},
		sharedSeq[K]{"Backward()", s.T.Backward(), rev},
		sharedSeq[K]{"TopK(3)", s.T.TopK(3), rev[:min(3, n)]},
		sharedSeq[K]{"BottomK(3)", s.T.BottomK(3), sorted[:min(3, n)]},
	)
	if k.HasRange && n >= 2 {
		a, b := sorted[n/4].Key, sorted[(3*n)/4].Key
		if ok, _ := k.RangeOK(a, b); ok && k.Cmp(a, b) != 0 {
			if want, skip := s.expectedRange(a, b); skip == "" {
				sh.seqs = append(sh.seqs, sharedSeq[K]{"Range(" + k.Show(a) + "," + k.Show(b) + ")", s.T.Range(k.Clone(a), k.Clone(b)), want})
			}
		}
	}
	if k.HasPrefix && k.Family == "alpha" {
		p := sorted[n/2].Key
		qs := k.PrefixQueries(r, p)
		p = qs[1%len(qs)]
		var want []*ref.Entry[K]
		for _, e := range sorted {
			if k.PrefixOf(e.Key, p) {
				want = append(want, e)
			}
		}
		sh.seqs = append(sh.seqs, sharedSeq[K]{"Prefix(" + k.Show(p) + ")", s.T.Prefix(k.Clone(p)), want})
	}
	return sh
}

// sweepStepper walks one 256-way fan-out family up and down through every
// size-class threshold (several times), one operation per Step.
type sweepStepper[K any] struct {
	s     *Session[K]
	r     *rng.R
	fam   []K
	ops   []closedOp
	pos   int
	chain *ev.Hasher
	dumps bool
}

// NewSweepStepper: the operation list is a pure function of (seed, name).
func NewSweepStepper[K any](k *kinds.Kind[K], cfg *Config, res *ev.Result, name string, seed uint64, dumps bool) Stepper {
	r := unitRng(seed, name)
	st := &sweepStepper[K]{s: NewSession(k, cfg, res, name), r: r, chain: ev.NewHasher(), dumps: dumps}
	st.s.every = 4
	if k.Fan == nil {
		return st
	}
	st.fam = k.Fan(r)
	n := len(st.fam)
	rng.Shuffle(r, st.fam)
	targets := []int{5, 3, 17, 12, 20, 11, 49, 37, 52, 36, 13, 11, 4, 17, 49, n, 38, 36, 12, 3, 18, 50, 12, 2}
	switch r.Intn(3) {
	case 0:
		targets = []int{17, 12, 17, 12, 49, 37, 49, 37, 13, 3, 5, 3, 17, 50, 36, 12, 3, 49, 12, 2}
	case 1:
		targets = []int{17, 48, 40, 48, 47, 48, 30, 48, 13, 30, 29, 30, 29, 30, 29, 30, 29, 30, 29, 30, 29, 30, 29, 30, 29, 30, 29, 30, 29, 30, 29, 30, 29, 30, 48, 49, 37, 12, 3, 2}
	}
	in := make([]bool, n)
	var live []int
	for _, tg := range targets {
		tg = min(tg, n)
		for len(live) < tg {
			j := r.Intn(n)
			for in[j] {
				j = (j + 1) % n
			}
			in[j] = true
			live = append(live, j)
			st.ops = append(st.ops, closedOp{del: false, idx: j})
		}
		for len(live) > tg {
			i := r.Intn(len(live))
			if r.Chance(1, 3) {
				i = 0 // oldest: frees a low slot of a 48-slot node
			}
			j := live[i]
			live = append(live[:i], live[i+1:]...)
			in[j] = false
			st.ops = append(st.ops, closedOp{del: true, idx: j})
		}
	}
	return st
}

func (st *sweepStepper[K]) Name() string  { return st.s.Unit }
func (st *sweepStepper[K]) Dead() bool    { return st.s.Dead }
func (st *sweepStepper[K]) Steps() int    { return st.pos }
func (st *sweepStepper[K]) Len() int      { return st.s.M.Len() }
func (st *sweepStepper[K]) Chain() uint64 { return st.chain.Sum() }

func (st *sweepStepper[K]) Step() bool {
	if st.pos >= len(st.ops) || st.s.Dead {
		return false
	}
	op := st.ops[st.pos]
	st.pos++
	if op.del {
		st.s.Delete(st.fam[op.idx])
	} else {
		st.s.Insert(st.fam[op.idx])
	}
	if st.s.Dead {
		return false
	}
	if st.pos%st.s.every == 0 {
		st.s.After(st.r)
	}
	st.chain.U64(st.s.Trace())
	if st.dumps {
		st.chain.U64(canonWithClasses(st.s.dump()))
	}
	return !st.s.Dead
}

func (st *sweepStepper[K]) Addrs() map[uintptr]int {
	return (&stepper[K]{s: st.s}).Addrs()
}

// CheckIterNested: a full All() pass with another piece of work run inside
// the loop body at one element; the pass must still deliver the reference.
func (s *Session[K]) CheckIterNested(at int, nested func()) {
	if s.Dead {
		return
	}
	want := s.M.Sorted()
	var got []pair[K]
	s.log("All() with another iteration nested inside the loop body at element %d", at)
	if s.guard("All with nested iteration", func() {
		i := 0
		for k, v := range s.T.All() {
			got = append(got, pair[K]{k, v})
			if i == at && nested != nil {
				nested()
			}
			i++
			if len(got) > len(want)+1 {
				break
			}
		}
	}) {
		return
	}
	s.Res.Evaluations++
	s.Res.Inc("nested_cross_tree_iterations")
	if !s.equalSeq(got, want) {
		s.violate("an iteration of this tree, with an iteration of another tree running inside its loop body, differs from the sorted reference",
			s.showEntries(want), s.showPairs(got), "")
	}
}

func (s *Session[K]) abandonDescending() {
	if s.Dead {
		return
	}
	s.guard("abandoned descending pass", func() {
		for range s.T.Backward() {
			break
		}
		for range s.T.TopK(2) {
			break
		}
	})
}

// CheckPendingSeqs: sequence values of every kind are created first, then between()
// runs (work on other trees), then each is drained and compared with the reference.
// The tree itself is not touched in between, so what it would deliver alone is the model.
func (s *Session[K]) CheckPendingSeqs(r *rng.R, between func()) {
	if s.Dead || s.M.Len() == 0 {
		return
	}
	type pend struct {
		name string
		seq  iter.Seq2[K, uint64]
		want []*ref.Entry[K]
	}
	var ps []pend
	sorted := append([]*ref.Entry[K]{}, s.M.Sorted()...)
	n := len(sorted)
	kk := 1 + r.Intn(4)
	s.log("sequence values created (All, Backward, BottomK/TopK(%d), Range, Prefix), operations on another tree, then drained", kk)
	if s.guard("creating sequence values", func() {
		ps = append(ps, pend{"All", s.T.All(), sorted})
		ps = append(ps, pend{"Backward", s.T.Backward(), reversed(sorted)})
		ps = append(ps, pend{"BottomK", s.T.BottomK(uint(kk)), sorted[:min(kk, n)]})
		ps = append(ps, pend{"TopK", s.T.TopK(uint(kk)), reversed(sorted)[:min(kk, n)]})
		if s.K.HasRange {
			a, b := sorted[r.Intn(n)].Key, sorted[r.Intn(n)].Key
			if want, skip := s.expectedRange(a, b); skip == "" {
				ps = append(ps, pend{"Range", s.T.Range(s.fresh(a), s.fresh(b)), want})
			}
		}
		if s.K.HasPrefix && s.K.Family != "collation" {
			qs := s.K.PrefixQueries(r, sorted[r.Intn(n)].Key)
			if len(qs) > 0 {
				p := qs[r.Intn(len(qs))]
				if s.K.PrefixArgOK(p) {
					var want []*ref.Entry[K]
					for _, e := range sorted {
						if s.K.PrefixOf(e.Key, p) {
							want = append(want, e)
						}
					}
					ps = append(ps, pend{"Prefix", s.T.Prefix(s.fresh(p)), want})
				}
			}
		}
	}) {
		return
	}
	if between != nil {
		between()
	}
	for _, p := range ps {
		if s.Dead {
			return
		}
		got, ok := s.drain(p.name+" (pending across another tree's operations)", func() iter.Seq2[K, uint64] { return p.seq }, n+1)
		if !ok {
			return
		}
		s.Res.Evaluations++
		s.Res.Inc("pending_seq_across_trees_" + p.name)
		if !s.equalSeq(got, p.want) {
			s.violate("a "+p.name+" sequence created before, and drained after, operations on another tree differs from what this tree delivers alone",
				s.showEntries(p.want), s.showPairs(got), "")
		}
	}
}

func (st *stepper[K]) PendingSeqs(r *rng.R, between func())      { st.s.CheckPendingSeqs(r, between) }
func (st *sweepStepper[K]) PendingSeqs(r *rng.R, between func()) { st.s.CheckPendingSeqs(r, between) }
func (st *stepper[K]) IterNested(at int, nested func())          { st.s.CheckIterNested(at, nested) }
func (st *stepper[K]) AbandonDescending()                        { st.s.abandonDescending() }
func (st *sweepStepper[K]) IterNested(at int, nested func())     { st.s.CheckIterNested(at, nested) }
func (st *sweepStepper[K]) AbandonDescending()                   { st.s.abandonDescending() }
