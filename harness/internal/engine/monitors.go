package engine

import (
	"fmt"
	"iter"
	"math"
	"strings"

	art "github.com/Clement-Jean/go-art"

	"verif/internal/ref"
	"verif/internal/rng"
)

func (s *Session[K]) dump() *art.VerifTree {
	d, ok := art.VerifDump(s.T)
	if !ok {
		panic("harness: VerifDump does not know this tree type")
	}
	return &d
}

// After runs, at a check point, every monitor the property asked for.
func (s *Session[K]) After(r *rng.R) {
	if s.Quiet || s.Dead {
		return
	}
	c := s.Cfg
	if c.Has(MMap) {
		// stored keys must stay retrievable after every structural change,
		// not only the key just written
		if s.M.Len() <= 64 {
			s.SearchAll()
		} else {
			for i := 0; i < 8 && !s.Dead; i++ {
				if st, ok := s.pickStored(r); ok {
					s.Search(st)
				}
			}
		}
		if s.Dead {
			return
		}
	}
	if c.Has(MSize) {
		s.CheckSize(true)
	}
	if c.Has(MIter) && !s.Dead {
		s.CheckIter()
	}
	if c.Has(MExt) && !s.Dead {
		s.CheckExtremes(r)
	}
	if c.Has(MRange) && !s.Dead && s.K.HasRange {
		s.CheckRanges(r)
	}
	if c.Has(MPrefix) && !s.Dead && s.K.HasPrefix {
		s.CheckPrefixes(r)
	}
	if c.Has(MSeq) && !s.Dead {
		s.CheckSeqProtocol(r)
	}
	if c.Has(MPurity) && !s.Dead {
		s.CheckPurity(r)
	}
	s.digestState()
}

// digestState records the current content as one distinct non-trivial case.
func (s *Session[K]) digestState() {
	if s.Quiet {
		return
	}
	h := newContentHasher()
	h.Str(s.K.Name)
	for _, e := range s.M.Sorted() {
		h.Str(s.K.ID(e.Key))
	}
	if s.M.Len() >= 2 {
		s.Res.Distinct(h.Sum())
	}
	s.Res.Max("max_keys_in_tree", int64(s.M.Len()))
}

// ---- C02 ----

type pair[K any] struct {
	k K
	v uint64
}

// drain collects a sequence with a cycle guard; it reports a panic as a
// violation and returns ok=false in that case.
func (s *Session[K]) drain(what string, seq func() iter.Seq2[K, uint64], limit int) (out []pair[K], ok bool) {
	if s.guard(what, func() {
		for k, v := range seq() {
			out = append(out, pair[K]{k, v})
			if len(out) > limit {
				break
			}
		}
	}) {
		return nil, false
	}
	return out, true
}

func (s *Session[K]) showPairs(ps []pair[K]) string {
	var sb strings.Builder
	for i, p := range ps {
		if i >= 24 {
			fmt.Fprintf(&sb, " ...(%d more)", len(ps)-i)
			break
		}
		fmt.Fprintf(&sb, " %s=%d", s.K.Show(p.k), p.v)
	}
	return "[" + strings.TrimSpace(sb.String()) + "]"
}

func (s *Session[K]) showEntries(es []*ref.Entry[K]) string {
	ps := make([]pair[K], len(es))
	for i, e := range es {
		ps[i] = pair[K]{e.Key, e.Val}
	}
	return s.showPairs(ps)
}

// equalSeq compares a yielded sequence with model entries (identity of the
// key in its original form, and the current value).
func (s *Session[K]) equalSeq(got []pair[K], want []*ref.Entry[K]) bool {
	if len(got) != len(want) {
		return false
	}
	for i := range got {
		if s.K.ID(got[i].k) != s.K.ID(want[i].Key) || got[i].v != want[i].Val {
			return false
		}
	}
	return true
}

func reversed[T any](xs []T) []T {
	out := make([]T, len(xs))
	for i, x := range xs {
		out[len(xs)-1-i] = x
	}
	return out
}

func (s *Session[K]) CheckIter() {
	want := s.M.Sorted()
	s.log("All()")
	got, ok := s.drain("All", func() iter.Seq2[K, uint64] { return s.T.All() }, len(want)+1)
	if !ok {
		return
	}
	s.Res.Evaluations++
	s.Res.Inc("iter_all")
	s.Res.Count("iter_elements", int64(len(got)))
	if !s.equalSeq(got, want) {
		s.violate("All() differs from the sorted reference", s.showEntries(want), s.showPairs(got), "")
		return
	}
	// strictly ascending under the oracle comparator (defence in depth: the
	// model is sorted by the same comparator)
	for i := 1; i < len(got); i++ {
		if s.K.Cmp(got[i-1].k, got[i].k) >= 0 {
			s.violate("All() is not strictly ascending", "ascending", s.showPairs(got[i-1:i+1]), "")
			return
		}
	}
	s.log("Backward()")
	back, ok := s.drain("Backward", func() iter.Seq2[K, uint64] { return s.T.Backward() }, len(want)+1)
	if !ok {
		return
	}
	s.Res.Evaluations++
	s.Res.Inc("iter_backward")
	if !s.equalSeq(back, reversed(want)) {
		s.violate("Backward() differs from the reversed sorted reference", s.showEntries(reversed(want)), s.showPairs(back), "")
	}
}

// ---- C06 ----

func (s *Session[K]) CheckSize(withAll bool) {
	var got int
	if s.guard("Size", func() { got = s.T.Size() }) {
		return
	}
	s.Res.Evaluations++
	s.Res.Inc("size_checks")
	if got != s.M.Len() {
		s.log("Size()")
		s.violate("Size() differs from the number of stored keys", fmt.Sprint(s.M.Len()), fmt.Sprint(got), "")
		return
	}
	if withAll {
		n := 0
		if s.guard("All", func() {
			for range s.T.All() {
				n++
				if n > s.M.Len()+1 {
					break
				}
			}
		}) {
			return
		}
		s.Res.Inc("size_vs_all_checks")
		if n != got {
			s.log("Size() vs count(All())")
			s.violate("Size() differs from the number of pairs All() yields", fmt.Sprint(n), fmt.Sprint(got), "")
		}
	}
}

// ---- C05 ----

func (s *Session[K]) CheckExtremes(r *rng.R) {
	want := s.M.Sorted()
	check := func(name string, f func() (K, uint64, bool), idx int) {
		var k K
		var v uint64
		var ok bool
		s.log("%s()", name)
		if s.guard(name, func() { k, v, ok = f() }) {
			return
		}
		s.Res.Evaluations++
		s.Res.Inc("ext_" + strings.ToLower(name))
		if len(want) == 0 {
			if ok {
				s.violate(name+"() reports an element on an empty tree", "none", fmt.Sprintf("%s=%d", s.K.Show(k), v), "")
			}
			return
		}
		e := want[idx]
		if !ok || s.K.ID(k) != s.K.ID(e.Key) || v != e.Val {
			s.violate(name+"() differs from the sorted reference", fmt.Sprintf("%s=%d", s.K.Show(e.Key), e.Val), fmt.Sprintf("%s=%d ok=%v", s.K.Show(k), v, ok), "")
		}
	}
	check("Minimum", s.T.Minimum, 0)
	if s.Dead {
		return
	}
	check("Maximum", s.T.Maximum, len(want)-1)
	if s.Dead {
		return
	}
	n := len(want)
	ks := []uint{0, 1, 2, uint(max(n-1, 0)), uint(n), uint(n + 1), uint(2*n + 3), math.MaxUint}
	for i := 0; i < s.Cfg.Queries; i++ {
		ks = append(ks, uint(r.Intn(n+3)))
	}
	for _, kk := range ks {
		if s.Dead {
			return
		}
		lim := min(int(min(kk, uint(n))), n)
		s.log("BottomK(%d)", kk)
		got, ok := s.drain("BottomK", func() iter.Seq2[K, uint64] { return s.T.BottomK(kk) }, n+1)
		if !ok {
			return
		}
		s.Res.Evaluations++
		s.Res.Inc("ext_bottomk")
		if !s.equalSeq(got, want[:lim]) {
			s.violate(fmt.Sprintf("BottomK(%d) differs from the first min(n,size) pairs of ascending order", kk), s.showEntries(want[:lim]), s.showPairs(got), "")
			return
		}
		s.log("TopK(%d)", kk)
		got, ok = s.drain("TopK", func() iter.Seq2[K, uint64] { return s.T.TopK(kk) }, n+1)
		if !ok {
			return
		}
		s.Res.Evaluations++
		s.Res.Inc("ext_topk")
		if !s.equalSeq(got, reversed(want)[:lim]) {
			s.violate(fmt.Sprintf("TopK(%d) differs from the first min(n,size) pairs of descending order", kk), s.showEntries(reversed(want)[:lim]), s.showPairs(got), "")
			return
		}
	}
}

// ---- C03 ----

// expectedRange filters the model by the stated semantics. skip names a
// carve-out when the pair is outside the property.
func (s *Session[K]) expectedRange(a, b K) (want []*ref.Entry[K], skip string) {
	if ok, why := s.K.RangeOK(a, b); !ok {
		return nil, why
	}
	lo, hi := a, b
	if s.K.EmptyEnd(b) {
		// byte-string trees: empty end = up to the largest stored key
		if s.M.Len() == 0 {
			return nil, ""
		}
		mx := s.M.At(s.M.Len() - 1).Key
		if s.K.Cmp(a, mx) > 0 {
			return nil, "empty-end-start-above-max"
		}
		hi = mx
	} else if s.K.Cmp(a, b) > 0 {
		lo, hi = b, a
	}
	for _, e := range s.M.Sorted() {
		if s.K.Cmp(e.Key, lo) >= 0 && s.K.Cmp(e.Key, hi) <= 0 {
			want = append(want, e)
		}
	}
	return want, ""
}

func (s *Session[K]) CheckRange(a, b K, class string) {
	want, skip := s.expectedRange(a, b)
	if skip != "" {
		s.Res.Inc("range_skipped_" + skip)
		return
	}
	s.log("Range(%s, %s)", s.K.Show(a), s.K.Show(b))
	got, ok := s.drain("Range", func() iter.Seq2[K, uint64] { return s.T.Range(s.fresh(a), s.fresh(b)) }, s.M.Len()+1)
	if !ok {
		return
	}
	s.Res.Evaluations++
	s.Res.Inc("range_" + class)
	if len(want) > 0 {
		s.Res.Inc("range_nonempty")
	}
	if !s.equalSeq(got, want) {
		s.violate("Range differs from the stored keys between the bounds", s.showEntries(want), s.showPairs(got), "")
	}
}

func (s *Session[K]) CheckRanges(r *rng.R) {
	n := s.M.Len()
	stored := func() K { k, _ := s.pickStored(r); return k }
	if n == 0 {
		// empty tree: every Range yields nothing and returns normally
		pool := s.K.Pool(r, 4)
		s.CheckRange(pool[0], pool[1], "empty_tree")
		if !s.Dead {
			s.CheckRange(pool[2], pool[2], "empty_tree")
		}
		if !s.Dead && s.K.Family == "alpha" {
			var z K
			s.CheckRange(pool[3], z, "empty_tree_empty_end")
			if !s.Dead {
				s.CheckRange(z, z, "empty_tree_empty_end")
			}
		}
		return
	}
	for q := 0; q < s.Cfg.Queries && !s.Dead; q++ {
		switch r.Intn(12) {
		case 0: // both present
			s.CheckRange(stored(), stored(), "both_present")
		case 1: // equal present
			k := stored()
			s.CheckRange(k, k, "equal_present")
		case 2: // equal absent
			k := s.K.Near(r, stored())
			s.CheckRange(k, k, "equal_near")
		case 3: // one absent
			s.CheckRange(stored(), s.K.Near(r, stored()), "one_near")
		case 4:
			s.CheckRange(s.K.Near(r, stored()), s.K.Near(r, stored()), "both_near")
		case 5: // adjacent stored keys, either order
			i := r.Intn(n)
			j := min(n-1, i+1)
			if r.Chance(1, 2) {
				i, j = j, i
			}
			s.CheckRange(s.M.At(i).Key, s.M.At(j).Key, "adjacent")
		case 6: // close in order: long common prefix between the bounds
			i := r.Intn(n)
			j := min(n-1, i+1+r.Intn(4))
			s.CheckRange(s.M.At(i).Key, s.M.At(j).Key, "close_pair")
		case 7: // around the extremes
			mn, mx := s.M.At(0).Key, s.M.At(n-1).Key
			switch r.Intn(4) {
			case 0:
				s.CheckRange(s.K.Near(r, mn), stored(), "near_min")
			case 1:
				s.CheckRange(stored(), s.K.Near(r, mx), "near_max")
			case 2:
				s.CheckRange(mn, mx, "min_max")
			default:
				s.CheckRange(mx, mn, "max_min_reversed")
			}
		case 8: // random pool keys (often absent, far apart)
			p := s.K.Pool(r, 2)
			s.CheckRange(p[0], p[1], "pool_pair")
		case 9: // near pair around one stored key
			k := stored()
			s.CheckRange(s.K.Near(r, k), s.K.Near(r, k), "near_same_key")
		case 10:
			if s.K.Family == "alpha" {
				var z K
				switch r.Intn(5) {
				case 0, 1:
					s.CheckRange(stored(), z, "empty_end")
				case 2:
					s.CheckRange(s.K.Near(r, stored()), z, "empty_end")
				case 3:
					s.CheckRange(z, z, "empty_both")
				default:
					s.CheckRange(z, stored(), "empty_start")
				}
			} else {
				s.CheckRange(stored(), stored(), "both_present")
			}
		default: // reversed present
			i := r.Intn(n)
			j := r.Intn(n)
			if i < j {
				i, j = j, i
			}
			s.CheckRange(s.M.At(i).Key, s.M.At(j).Key, "reversed")
		}
	}
}

// ---- C04 ----

func (s *Session[K]) CheckPrefix(p K, class string) {
	if !s.K.PrefixArgOK(p) {
		s.Res.Inc("prefix_skipped_out_of_scope")
		return
	}
	var want []*ref.Entry[K]
	for _, e := range s.M.Sorted() {
		if s.K.PrefixOf(e.Key, p) {
			want = append(want, e)
		}
	}
	s.log("Prefix(%s)", s.K.Show(p))
	got, ok := s.drain("Prefix", func() iter.Seq2[K, uint64] { return s.T.Prefix(s.fresh(p)) }, s.M.Len()+1)
	if !ok {
		return
	}
	s.Res.Evaluations++
	s.Res.Inc("prefix_" + class)
	if len(want) > 0 {
		s.Res.Inc("prefix_nonempty")
		if len(want) < s.M.Len() {
			s.Res.Inc("prefix_proper_subset")
		}
	}
	if !s.equalSeq(got, want) {
		s.violate("Prefix differs from the stored keys that start with the argument", s.showEntries(want), s.showPairs(got), "")
	}
}

func (s *Session[K]) CheckPrefixes(r *rng.R) {
	var z K
	if s.M.Len() == 0 {
		s.CheckPrefix(z, "empty_tree")
		if !s.Dead {
			p := s.K.Pool(r, 1)[0]
			s.CheckPrefix(p, "empty_tree")
		}
		return
	}
	done := 0
	for done < s.Cfg.Queries && !s.Dead {
		k, _ := s.pickStored(r)
		qs := s.K.PrefixQueries(r, k)
		rng.Shuffle(r, qs)
		for _, p := range qs {
			if done >= s.Cfg.Queries || s.Dead {
				break
			}
			s.CheckPrefix(p, "derived")
			done++
		}
	}
	if !s.Dead && r.Chance(1, 4) {
		s.CheckPrefix(z, "empty_prefix")
	}
}

// prefixScopePool: contents inside C04's scope for collation kinds.
func (s *Session[K]) prefixScopePool(r *rng.R, n int) []K {
	// collation kinds expose their scope through PrefixArgOK; the ASCII pool
	// generator lives in kinds and is reached through Clone of converted keys.
	pool := s.K.Pool(r, 1) // only to obtain a K to convert from (unused)
	_ = pool
	return scopePool(s.K, r, n)
}
