// Package codec holds the oracle's own order-preserving encoders. Nothing
// here calls into the library's keys.go; the layouts are derived from the
// property statement (fixed width, big-endian, order isomorphism).
package codec

import "math"

func BE(u uint64, width int) []byte {
	b := make([]byte, width)
	for i := width - 1; i >= 0; i-- {
		b[i] = byte(u)
		u >>= 8
	}
	return b
}

func FromBE(b []byte) uint64 {
	var u uint64
	for _, x := range b {
		u = u<<8 | uint64(x)
	}
	return u
}

// Unsigned: the value itself, big-endian.
func Unsigned(u uint64, width int) []byte { return BE(u, width) }

// Signed: two's complement with the sign bit flipped, big-endian. v is the
// sign-extended value; only the low width bytes are used.
func Signed(v int64, width int) []byte {
	u := uint64(v) ^ (uint64(1) << (uint(width)*8 - 1))
	return BE(u, width)
}

// Float64Rank maps a float64 to an unsigned rank realising
// NaN < -Inf < negatives < -0 < +0 < positives < +Inf (all NaNs alike).
// The rank is the oracle's own; it is NOT required to equal the library's
// bytes, only to order the same way.
func Float64Rank(f float64) uint64 {
	if f != f {
		return 0
	}
	u := math.Float64bits(f)
	if u>>63 == 1 {
		return ^u + 1 // negatives: larger magnitude -> smaller rank; never 0 for non-NaN
	}
	return u | 1<<63 + 1
}

func Float32Rank(f float32) uint32 {
	if f != f {
		return 0
	}
	u := math.Float32bits(f)
	if u>>31 == 1 {
		return ^u + 1
	}
	return u | 1<<31 + 1
}
