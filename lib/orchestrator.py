#!/usr/bin/env python3
"""Orchestrator of the go-art runtime-monitoring checks (python3, stdlib only).

    bin/check <ID> <quick|thorough>
    bin/check <ID> --replay <witness.json>

Builds the worker from /verif/harness against /repo's current working tree
(hooks on: -tags verif), spawns shard processes, merges what they observed,
matches violations against KNOWN_FINDINGS.txt, writes evidence/<ID>.json.

Exit codes: 0 held on everything observed; 1 violation (a line
"VIOLATION property=<id> replay=<path>" is printed); 2 inconclusive (build
failure, watchdog, coverage floor not reached).
"""
import array
import json
import os
import shutil
import subprocess
import sys
import tempfile
import time

VERIF = os.path.dirname(os.path.dirname(os.path.abspath(__file__)))
HARNESS = os.path.join(VERIF, "harness")
sys.path.insert(0, os.path.join(VERIF, "lib"))
import proptable  # noqa: E402

GOENV = {"GOPROXY": "off", "GOFLAGS": "-mod=mod"}

BUILD_FLAGS = {
    "plain": [],
    "race": ["-race"],
    "gcstress": ["-gcflags=all=-d=checkptr"],
    "asan": ["-asan"],
    # observe-only pass: which library functions / statements the workload reached
    "cover": ["-cover", "-coverpkg=github.com/Clement-Jean/go-art,verif/..."],
}
RUN_ENV = {
    "plain": {},
    "race": {},  # GORACE is set per shard (log_path)
    "gcstress": {"GOGC": "1", "GODEBUG": "clobberfree=1"},
    "asan": {"ASAN_OPTIONS": "halt_on_error=1:abort_on_error=0:detect_leaks=0"},
    "cover": {},
}


def log(*a):
    print(*a, flush=True)


def repo_path():
    return os.environ.get("VERIF_REPO", "/repo")


def build_worker(scratch, mode):
    """Build the worker in one mode. Returns (path, None) or (None, error text)."""
    out = os.path.join(scratch, "worker-" + mode)
    env = dict(os.environ)
    env.update(GOENV)
    cmd = ["go", "build", "-tags", "verif"] + BUILD_FLAGS[mode]
    repo = repo_path()
    if repo != "/repo":
        # checks against a scratch copy of the repository (mutation campaign)
        modfile = os.path.join(scratch, "alt.mod")
        with open(os.path.join(HARNESS, "go.mod")) as f:
            txt = f.read().replace("=> /repo", "=> " + repo)
        with open(modfile, "w") as f:
            f.write(txt)
        shutil.copy(os.path.join(HARNESS, "go.sum"), os.path.join(scratch, "alt.sum"))
        cmd += ["-modfile=" + modfile]
    ov = None if mode == "cover" else portable_overlay(scratch, repo)  # the cover tool does not read overlays
    if ov:
        cmd += ["-overlay", ov]
    cmd += ["-o", out, "./cmd/worker"]
    if mode == "asan":
        env["CGO_ENABLED"] = "1"
    p = subprocess.run(cmd, cwd=HARNESS, env=env, stdout=subprocess.PIPE, stderr=subprocess.STDOUT, text=True)
    if p.returncode != 0:
        return None, p.stdout[-4000:]
    return out, None


def portable_overlay(scratch, repo):
    """Compile the working tree's node16_other.go (excluded on amd64) into the harness
    package internal/portable through a build overlay, so that it can be executed."""
    src = os.path.join(repo, "node16_other.go")
    if not os.path.exists(src):
        return None
    lines = [l for l in open(src).read().splitlines() if not l.startswith("//go:build") and not l.startswith("// +build")]
    txt = "\n".join(lines).replace("package art", "package portable", 1)
    txt += "\n\nfunc init() {\n\tAvailable = true\n\tSearchNode16 = searchNode16\n\tInsertPosNode16 = insertPosNode16\n}\n"
    gen = os.path.join(scratch, "node16_other_portable.go")
    with open(gen, "w") as f:
        f.write(txt)
    ov = os.path.join(scratch, "overlay.json")
    with open(ov, "w") as f:
        json.dump({"Replace": {os.path.join(HARNESS, "internal", "portable", "zz_node16_other.go"): gen}}, f)
    return ov


def list_units(worker, prop, tier, seed, mode):
    p = subprocess.run([worker, "-prop", prop, "-tier", tier, "-seed", str(seed), "-mode", mode, "-list"],
                       stdout=subprocess.PIPE, stderr=subprocess.PIPE, text=True)
    if p.returncode != 0:
        raise RuntimeError("worker -list failed: " + p.stderr[-2000:])
    return [l for l in p.stdout.splitlines() if l.strip()]


def run_jobs(jobs, parallel):
    """jobs: list of dict(cmd, env, dir, watchdog). Runs them with bounded parallelism."""
    running = []
    pending = list(jobs)
    while pending or running:
        while pending and len(running) < parallel:
            j = pending.pop(0)
            os.makedirs(j["dir"], exist_ok=True)
            so = open(os.path.join(j["dir"], "stdout"), "w")
            se = open(os.path.join(j["dir"], "stderr"), "w")
            env = dict(os.environ)
            env.update(j["env"])
            cmd = ["timeout", "-s", "QUIT", "-k", "20", str(j["watchdog"])] + j["cmd"]
            j["proc"] = subprocess.Popen(cmd, env=env, stdout=so, stderr=se, cwd=j["dir"])
            j["files"] = (so, se)
            running.append(j)
        still = []
        for j in running:
            rc = j["proc"].poll()
            if rc is None:
                still.append(j)
            else:
                j["rc"] = rc
                for f in j["files"]:
                    f.close()
        running = still
        if running:
            time.sleep(0.05)


def tail(path, n=6000):
    try:
        with open(path, "rb") as f:
            f.seek(0, 2)
            size = f.tell()
            f.seek(max(0, size - n))
            return f.read().decode("utf-8", "replace")
    except OSError:
        return ""


def head(path, n=3500):
    try:
        with open(path, "rb") as f:
            return f.read(n).decode("utf-8", "replace")
    except OSError:
        return ""


def load_known():
    """KNOWN_FINDINGS.txt -> (open findings {(prop, probe): text}, fixed {(prop, probe): text})."""
    findings, fixed = {}, {}
    path = os.path.join(VERIF, "KNOWN_FINDINGS.txt")
    if not os.path.exists(path):
        return findings, fixed
    for line in open(path):
        line = line.strip()
        if not line or line.startswith("#"):
            continue
        kind, _, rest = line.partition(":")
        fields = rest.split()
        kv = dict(f.split("=", 1) for f in fields if "=" in f and f.split("=", 1)[0] in ("property", "probe"))
        text = " ".join(f for f in fields if not (f.startswith("property=") or f.startswith("probe=")))
        key = (kv.get("property"), kv.get("probe"))
        if kind.strip() == "finding":
            findings[key] = text
        elif kind.strip() == "fixed":
            fixed[key] = text
    return findings, fixed


def race_reports(shard_dir):
    """Count and de-duplicate race detector report blocks in a shard's logs."""
    blocks = []
    for name in sorted(os.listdir(shard_dir)):
        if not (name.startswith("race.") or name == "stderr"):
            continue
        txt = open(os.path.join(shard_dir, name), errors="replace").read()
        parts = txt.split("WARNING: DATA RACE")
        for part in parts[1:]:
            end = part.find("==================")
            blocks.append("WARNING: DATA RACE" + (part if end < 0 else part[:end]))
    dedup = {}
    for b in blocks:
        # one stack per paragraph ("Write at ... by goroutine N:", "Previous read at ..."); the key is the
        # innermost library frame of each of the two access stacks
        stacks = []
        for para in b.replace("WARNING: DATA RACE\n", "", 1).split("\n\n"):
            head = para.strip().splitlines()[:1]
            if not head or not ("by goroutine" in head[0] or "by main goroutine" in head[0]):
                continue
            if not (head[0].lstrip().startswith(("Write", "Read", "Previous", "Atomic"))):
                continue
            fr = [l.strip() for l in para.splitlines()[1:] if l.startswith("  ") and not l.strip().startswith("/")]
            lib = [f[:-2] if f.endswith("()") else f for f in fr if "Clement-Jean/go-art" in f]
            stacks.append(lib[0] if lib else None)
        libs = [x for x in stacks if x]
        key = tuple(sorted(set(libs))) or ("harness-only",)
        dedup.setdefault(key, b)
    return blocks, dedup


def library_coverage(jobs):
    """Merge the coverage counters of the cover-mode shards and report, for the library package
    only, total statement coverage and the functions that were not fully covered."""
    dirs = [j["env"]["GOCOVERDIR"] for j in jobs if os.path.isdir(j["env"].get("GOCOVERDIR", "")) and os.listdir(j["env"]["GOCOVERDIR"])]
    if not dirs:
        return None
    env = dict(os.environ)
    env.update(GOENV)
    p = subprocess.run(["go", "tool", "covdata", "func", "-i=" + ",".join(dirs)], cwd=HARNESS, env=env,
                       stdout=subprocess.PIPE, stderr=subprocess.PIPE, text=True)
    if p.returncode != 0:
        return {"error": p.stderr[-500:]}
    funcs, partial = 0, {}
    for line in p.stdout.splitlines():
        parts = line.split()
        if len(parts) != 3 or not parts[0].startswith("github.com/Clement-Jean/go-art/"):
            continue
        name = parts[0].split("/")[-1] + " " + parts[1]
        if "verif_" in parts[0]:
            continue  # the hooks themselves
        try:
            pct = float(parts[2].rstrip("%"))
        except ValueError:
            continue
        funcs += 1
        if pct < 100.0:
            partial[name] = pct
    q = subprocess.run(["go", "tool", "covdata", "percent", "-i=" + ",".join(dirs)], cwd=HARNESS, env=env,
                       stdout=subprocess.PIPE, stderr=subprocess.PIPE, text=True)
    total = None
    for line in q.stdout.splitlines():
        if line.strip().startswith("github.com/Clement-Jean/go-art\t") or line.strip().startswith("github.com/Clement-Jean/go-art "):
            try:
                total = float(line.split("coverage:")[1].split("%")[0])
            except (IndexError, ValueError):
                pass
    return {"statement_percent_of_package_incl_hooks": total, "functions_seen": funcs,
            "functions_not_fully_covered": dict(sorted(partial.items(), key=lambda kv: kv[1])[:60])}


def main(argv):
    if len(argv) < 3:
        log(__doc__)
        return 2
    prop = argv[1]
    if prop not in proptable.PROPS:
        log("unknown property", prop)
        return 2
    spec = proptable.PROPS[prop]
    replay = None
    if argv[2] == "--replay":
        replay = json.load(open(argv[3]))
        tier = replay.get("tier", "quick")
        seed = int(replay.get("seed", 1))
    else:
        tier = os.environ.get("VERIF_TIER") or argv[2]
        seed = int(os.environ.get("VERIF_SEED", "1"))
    if tier not in ("quick", "thorough"):
        log("tier must be quick or thorough")
        return 2
    t0 = time.time()
    nproc = int(os.environ.get("VERIF_SHARDS", "0")) or min(16, os.cpu_count() or 1)
    scratch = tempfile.mkdtemp(prefix="verif-%s-" % prop)
    try:
        return run(prop, spec, tier, seed, replay, scratch, nproc, t0)
    finally:
        if not os.environ.get("VERIF_KEEP"):
            shutil.rmtree(scratch, ignore_errors=True)
        else:
            log("scratch kept:", scratch)


def inconclusive(prop, reason, detail=""):
    log("INCONCLUSIVE property=%s reason=%s" % (prop, reason))
    if detail:
        log(detail)
    return 2


def run(prop, spec, tier, seed, replay, scratch, nproc, t0):
    modes = list(spec["modes"](tier))
    for m in os.environ.get("VERIF_EXTRA_MODES", "").split(","):
        if m and m in BUILD_FLAGS and m not in modes and not spec.get("custom"):
            modes.append(m)
    if replay:
        modes = [replay.get("mode", modes[0])]
    if spec.get("custom"):
        # properties decided without the Go worker (C19)
        return spec["custom"](prop, tier, seed, scratch, t0, replay)
    workers = {}
    for m in modes:
        w, err = build_worker(scratch, m)
        if err is not None:
            return inconclusive(prop, "build", "mode %s:\n%s" % (m, err))
        workers[m] = w
    watchdog = spec.get("watchdog", {}).get(tier, 1500 if tier == "quick" else 14000)
    jobs = []
    for m in modes:
        # extra observation passes (coverage; checkptr for some properties) repeat the quick workload
        wtier = "quick" if m in spec.get("quick_tier_modes", ("cover",)) else tier
        base = [workers[m], "-prop", prop, "-tier", wtier, "-seed", str(seed), "-mode", m]
        env = dict(RUN_ENV[m])
        env.update(spec.get("env", {}))
        if replay:
            d = os.path.join(scratch, "replay-" + m)
            jobs.append(dict(cmd=base + ["-unit", replay["unit"], "-out", d], env=env, dir=d, watchdog=watchdog, mode=m))
            continue
        if spec.get("per_unit"):
            units = list_units(workers[m], prop, wtier, seed, m)
            for i, u in enumerate(units):
                d = os.path.join(scratch, "%s-unit-%d" % (m, i))
                jobs.append(dict(cmd=base + ["-unit", u, "-out", d], env=dict(env), dir=d, watchdog=watchdog, mode=m, unit=u))
        else:
            for i in range(nproc):
                d = os.path.join(scratch, "%s-shard-%d" % (m, i))
                jobs.append(dict(cmd=base + ["-shard", str(i), "-shards", str(nproc), "-out", d], env=dict(env), dir=d, watchdog=watchdog, mode=m))
    for j in jobs:
        if j["mode"] == "cover":
            j["env"]["GOCOVERDIR"] = os.path.join(j["dir"], "cov")
            os.makedirs(j["env"]["GOCOVERDIR"], exist_ok=True)
        if j["mode"] == "race":
            j["env"]["GORACE"] = "halt_on_error=0 history_size=7 log_path=%s" % os.path.join(j["dir"], "race")
    run_jobs(jobs, spec.get("parallel", nproc))

    # ---- collect ----
    merged = dict(evaluations=0, counters={}, samples=[], violations=[], n_violations=0, exhaustive={}, notes=[])
    digests = set()
    digest_full = False
    crashes, timeouts = [], []
    races_total, races_dedup = 0, {}
    for j in jobs:
        rpath = os.path.join(j["dir"], "result.json")
        res = None
        if os.path.exists(rpath):
            try:
                res = json.load(open(rpath))
            except ValueError:
                res = None
        if res is None or not res.get("done"):
            info = dict(dir=j["dir"], rc=j.get("rc"), mode=j["mode"], unit=j.get("unit"),
                        last_cases=tail(os.path.join(j["dir"], "cases.log"), 600),
                        stderr=head(os.path.join(j["dir"], "stderr"), 3500) + "\n[...]\n" + tail(os.path.join(j["dir"], "stderr"), 1500))
            if j.get("rc") in (124, 137) or "SIGQUIT" in info["stderr"][:4000]:
                timeouts.append(info)
            else:
                crashes.append(info)
            continue
        merged["evaluations"] += res["evaluations"]
        for k, v in res["counters"].items():
            if k.startswith("max_"):
                merged["counters"][k] = max(merged["counters"].get(k, 0), v)
            else:
                merged["counters"][k] = merged["counters"].get(k, 0) + v
        for s in res.get("samples") or []:
            if len(merged["samples"]) < 8:
                merged["samples"].append(s)
        for v in res.get("violations") or []:
            v["mode"] = j["mode"]
            merged["violations"].append(v)
        merged["n_violations"] += res.get("n_violations", 0)
        merged["exhaustive"].update(res.get("exhaustive") or {})
        merged["notes"] += res.get("notes") or []
        digest_full = digest_full or res.get("digest_cap_reached", False)
        dpath = os.path.join(j["dir"], "digests.bin")
        if os.path.exists(dpath) and len(digests) >= (1 << 23):
            digest_full = True  # merged set capped: distinct_nontrivial is a lower bound
        if os.path.exists(dpath) and len(digests) < (1 << 23):
            a = array.array("Q")
            with open(dpath, "rb") as f:
                a.frombytes(f.read())
            digests.update(a)
        if j["mode"] == "race":
            blocks, dd = race_reports(j["dir"])
            races_total += len(blocks)
            for k, b in dd.items():
                races_dedup.setdefault(k, (b, j))

    libcov = library_coverage([j for j in jobs if j["mode"] == "cover"]) if "cover" in modes else None
    if os.environ.get("VERIF_COVER_OUT") and "cover" in modes:
        for n, j in enumerate(j for j in jobs if j["mode"] == "cover"):
            src = j["env"].get("GOCOVERDIR", "")
            if os.path.isdir(src) and os.listdir(src):
                shutil.copytree(src, os.path.join(os.environ["VERIF_COVER_OUT"], "%s-%d" % (prop, n)), dirs_exist_ok=True)

    findings, fixed = load_known()
    os.makedirs(os.path.join(VERIF, "replays"), exist_ok=True)
    lines = []
    new_violations = 0
    known_seen = {}

    def witness(name, payload):
        path = os.path.join(VERIF, "replays", "%s-%s-seed%d-%s.json" % (prop, tier, seed, name))
        with open(path, "w") as f:
            json.dump(payload, f, indent=1)
        return path

    for i, v in enumerate(merged["violations"]):
        key = (v.get("prop"), v.get("probe") or None)
        if v.get("probe") and key in findings:
            known_seen[key] = findings[key]
            continue
        new_violations += 1
        if new_violations <= 5:
            path = witness("v%d" % i, v)
            lines.append("VIOLATION property=%s replay=%s" % (prop, path))
            log("  what: %s | kind=%s unit=%s%s" % (v.get("what"), v.get("kind"), v.get("unit"),
                                                 (" probe=" + v["probe"]) if v.get("probe") else ""))
            if v.get("expected") or v.get("observed"):
                log("  expected: %s" % str(v.get("expected"))[:300])
                log("  observed: %s" % str(v.get("observed"))[:300])
    extra = merged["n_violations"] - len(merged["violations"])
    if extra > 0 and new_violations > 0:
        new_violations += extra
    for i, c in enumerate(crashes):
        # a shard that died without a result: runtime throw / checkptr / sanitizer report (process-fatal)
        new_violations += 1
        path = witness("crash%d" % i, dict(prop=prop, tier=tier, seed=seed, mode=c["mode"], unit=(c.get("unit") or last_unit(c["last_cases"])),
                                           what="worker process died (fatal runtime error or sanitizer report)",
                                           rc=c["rc"], last_cases=c["last_cases"], stderr=c["stderr"]))
        lines.append("VIOLATION property=%s replay=%s" % (prop, path))
        log("  worker died rc=%s mode=%s last unit: %s" % (c["rc"], c["mode"], c["last_cases"].strip().splitlines()[-1:] or ""))
        log("  " + "\n  ".join(c["stderr"].strip().splitlines()[:12]))
    lib_races = {k: v for k, v in races_dedup.items() if k != ("harness-only",)}
    harness_races = races_dedup.get(("harness-only",))
    for i, (k, (b, j)) in enumerate(sorted(lib_races.items())):
        new_violations += 1
        path = witness("race%d" % i, dict(prop=prop, tier=tier, seed=seed, mode="race", unit=j.get("unit") or "",
                                          what="data race reported by the race detector", frames=list(k), report=b[:6000]))
        lines.append("VIOLATION property=%s replay=%s" % (prop, path))
        log("  data race between: %s" % (" / ".join(k)))

    for key, text in sorted(known_seen.items()):
        log("KNOWN-FINDING: property=%s %s (probe %s)" % (key[0], text, key[1]))

    # ---- floors ----
    floor_missing, soft_missing = [], []
    if not replay:
        for name in spec.get("floors", lambda t: [])(tier):
            if merged["counters"].get(name, 0) <= 0:
                floor_missing.append(name)
        # implementation-shaped events (size-class transitions, pool reuse, insert paths): their absence is
        # reported, it does not make the run inconclusive (a correct refactoring may remove them)
        for name in spec.get("soft_floors", lambda t: [])(tier):
            if merged["counters"].get(name, 0) <= 0:
                soft_missing.append(name)

    wall = time.time() - t0
    cov = dict(merged["counters"])
    coverage = {
        "evaluations": int(merged["evaluations"]),
        "distinct_nontrivial": len(digests) + int(merged["counters"].get(spec.get("distinct_counter", "-"), 0)),
        "rule": spec["rule"] + (" [distinct set capped: lower bound]" if digest_full else ""),
        "samples": merged["samples"] or [{"note": "no sample recorded"}],
        "observed": cov,
        "modes": modes,
        "shards": len(jobs),
        "units_run": cov.get("units_run", 0),
        "known_findings_seen": ["%s %s" % (k[1], t) for k, t in sorted(known_seen.items())],
        "floors_required": spec.get("floors", lambda t: [])(tier),
        "floors_missing": floor_missing,
        "expected_events_required_soft": spec.get("soft_floors", lambda t: [])(tier),
        "expected_events_not_observed": soft_missing,
        "crashed_workers": len(crashes),
        "watchdog_timeouts": len(timeouts),
    }
    if merged["exhaustive"]:
        coverage["closed_universes_exhaustive"] = merged["exhaustive"]
        coverage["states"] = int(cov.get("closed_states", 0))
        coverage["transitions"] = int(cov.get("closed_transitions", 0))
    if "race" in modes:
        coverage["race_reports_total"] = races_total
        coverage["race_reports_distinct_library"] = len(lib_races)
        coverage["race_reports_harness_only"] = 1 if harness_races else 0
    if libcov:
        coverage["library_coverage_of_quick_workload"] = libcov
    if spec.get("exhaustive_note"):
        coverage["exhaustive_note"] = spec["exhaustive_note"]
    if merged["notes"]:
        coverage["notes"] = merged["notes"][:20]
    evidence = {
        "property_id": prop,
        "tier": tier,
        "seed": seed,
        "level": spec["level"],
        "coverage": coverage,
        "assumptions": spec["assumptions"],
        "wall_s": round(wall, 2),
        "violations": int(new_violations),
    }
    if not replay and not os.environ.get("VERIF_NO_EVIDENCE"):
        os.makedirs(os.path.join(VERIF, "evidence"), exist_ok=True)
        with open(os.path.join(VERIF, "evidence", prop + ".json"), "w") as f:
            json.dump(evidence, f, indent=1, sort_keys=True)
        if tier == "thorough":
            # keep the last thorough run next to the (quick) file the harness rewrites
            os.makedirs(os.path.join(VERIF, "evidence-thorough"), exist_ok=True)
            with open(os.path.join(VERIF, "evidence-thorough", prop + ".json"), "w") as f:
                json.dump(evidence, f, indent=1, sort_keys=True)
    if soft_missing:
        log("COVERAGE-NOTE property=%s expected structural events not observed in this run: %s" % (prop, ", ".join(soft_missing)))
    for l in lines:
        log(l)
    log("%s %s seed=%d: evaluations=%d distinct=%d violations=%d known=%d wall=%.1fs" % (
        prop, tier, seed, merged["evaluations"], len(digests), new_violations, len(known_seen), wall))
    if new_violations > 0:
        return 1
    if harness_races:
        return inconclusive(prop, "harness-race", harness_races[0][:3000])
    if timeouts:
        return inconclusive(prop, "watchdog", "\n".join(t["last_cases"][-300:] for t in timeouts))
    if floor_missing:
        return inconclusive(prop, "coverage-floor", "not observed: " + ", ".join(floor_missing))
    if merged["evaluations"] <= 0:
        return inconclusive(prop, "observed-nothing")
    return 0


def last_unit(cases_tail):
    for l in reversed(cases_tail.strip().splitlines()):
        if l.startswith("unit "):
            return l.split(" ", 2)[2]
    return ""


if __name__ == "__main__":
    sys.exit(main(sys.argv))
