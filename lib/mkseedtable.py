#!/usr/bin/env python3
"""Print the markdown table of seeded changes (DESIGN.md section 10) from seeded/*/meta.json."""
import glob
import json
import os

SUMMARY = json.load(open(os.path.join(os.path.dirname(__file__), "seed_summaries.json")))
rows = []
for d in sorted(glob.glob(os.path.join(os.path.dirname(__file__), "..", "seeded", "C[0-9]*-*"))):
    name = os.path.basename(d)
    m = json.load(open(os.path.join(d, "meta.json")))
    det = ", ".join(m.get("detected_by", [])) or "**missed**"
    walls = "/".join("%ss" % int(v["wall_s"]) for v in m["checks_quick"].values())
    rows.append("| `%s` | %s | %s | %s | %s |" % (name, m["property"], SUMMARY.get(name, ""), det, walls))
print("| seed | property | change (what it needs to manifest) | quick checks that exit 1 | wall |")
print("|------|----------|-------------------------------------|--------------------------|------|")
print("\n".join(rows))
