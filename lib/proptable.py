"""Per-property tables used by the orchestrator and by the MANIFEST generator."""
import c19

PLAIN = lambda tier: ["plain", "cover"] if tier == "thorough" else ["plain"]  # noqa: E731

COMMON_ASSUME = [
    "verdicts cover only the executions this run produced (see coverage.observed); no claim about histories not generated",
    "the Go toolchain, runtime and race detector are trusted; golang.org/x/text v0.23.0 is trusted as the collation oracle",
    "node16_arm64.s is never executed in this amd64 sandbox",
]

TRANSITION_FLOORS = ["tr_grow_4_16", "tr_grow_16_48", "tr_grow_48_256", "tr_shrink_16_4", "tr_shrink_48_16",
                     "tr_shrink_256_48", "tr_new_node4", "tr_node4_removed"]

PROPS = {
    "C01": dict(
        title="exact key->value map under any history",
        modes=PLAIN, level="exploration",
        rule="units = (kind, seed-derived random history | threshold walk over a 256-way fan-out family | closed BFS over a purpose-built universe | named probe); "
             "every Insert/Delete/Search result is compared with an ideal map in lock-step (unique value ids); "
             "distinct_nontrivial = number of distinct (kind, stored key set) contents with >= 2 keys observed at check points, counted with a hash set",
        assumptions=COMMON_ASSUME + ["byte-string contents in which one key followed by 0x00 is a prefix of another are excluded from the general workloads (open known finding map/nul-extends-stored-key, exercised by its own probe)"],
        floors=lambda t: ["op_insert_new", "op_insert_overwrite", "op_delete_present", "op_delete_absent", "op_search_hit", "op_search_miss", "closed_states", "units_sweep"],
        technique="reference-model monitor (ideal map in lock-step) over hostile random histories, threshold walks and closed small-universe exploration",
    ),
    "C02": dict(
        title="All/Backward complete, duplicate-free, sorted",
        modes=PLAIN, level="exploration",
        rule="as C01 units; at check points the full All() and Backward() sequences are compared with the reference sorted by an oracle comparator that never calls keys.go; "
             "distinct_nontrivial = distinct (kind, key set) contents with >= 2 keys at which both sequences were compared",
        assumptions=COMMON_ASSUME,
        floors=lambda t: ["iter_all", "iter_backward", "closed_states", "units_sweep"],
        technique="reference-model monitor: full iteration vs independently sorted model",
    ),
    "C03": dict(
        title="Range returns exactly the keys between the bounds",
        modes=PLAIN, level="exploration",
        rule="contents from C01-style units (alpha, all integer and float types, compound schemas); at check points several bound pairs per class "
             "(both/one/none present, equal, reversed, adjacent, close pair, around extremes, pool pair, empty end/start, empty tree) are queried and compared with the filtered sorted model; "
             "carve-outs (NaN bound, (-0,+0), empty end with start above max) are skipped and counted; distinct_nontrivial = distinct contents queried",
        assumptions=COMMON_ASSUME,
        floors=lambda t: ["range_both_present", "range_equal_present", "range_equal_near", "range_reversed", "range_adjacent", "range_close_pair",
                          "range_empty_tree", "range_empty_tree_empty_end", "range_empty_end", "range_nonempty"],
        technique="reference-model monitor: Range results vs filtered sorted model, bound pairs by class",
    ),
    "C04": dict(
        title="Prefix returns exactly the keys starting with p",
        modes=PLAIN, level="exploration",
        rule="contents from C01-style units on byte-string trees, and on collation trees (root/en collators, string/[]byte/[]rune) restricted to ASCII letters; "
             "prefix arguments derived from stored keys (every cut incl. 9/10/11/12, extension, divergence, leading NUL) compared with the model filtered by HasPrefix; "
             "distinct_nontrivial = distinct contents queried",
        assumptions=COMMON_ASSUME + ["collation scope: ASCII letters only (no contractions, no ignorables), as the property restricts"],
        floors=lambda t: ["prefix_derived", "prefix_nonempty", "prefix_proper_subset", "prefix_empty_tree", "prefix_empty_prefix"],
        technique="reference-model monitor: Prefix results vs HasPrefix-filtered model",
    ),
    "C05": dict(
        title="Minimum/Maximum/TopK/BottomK agree with sorted content",
        modes=PLAIN, level="exploration",
        rule="C01-style units; at check points Minimum/Maximum and TopK/BottomK for n in {0,1,2,size-1,size,size+1,2size+3,MaxUint}+random are compared with the ends of the sorted model; "
             "distinct_nontrivial = distinct contents checked",
        assumptions=COMMON_ASSUME,
        floors=lambda t: ["ext_minimum", "ext_maximum", "ext_topk", "ext_bottomk", "closed_states"],
        technique="reference-model monitor: extremes and k-prefixes of sorted model",
    ),
    "C06": dict(
        title="Size equals the number of stored keys",
        modes=PLAIN, level="exploration",
        rule="C01-style units; Size() is compared with the model cardinality after every mutating operation and with count(All()) at check points; "
             "each successful insert is classified (empty tree / leaf split / path split / optimistic path split / child add) from the structural dump taken before it; "
             "distinct_nontrivial = distinct contents checked",
        assumptions=COMMON_ASSUME,
        floors=lambda t: ["size_checks", "size_vs_all_checks", "op_insert_new", "op_insert_overwrite", "op_delete_present", "op_delete_absent"],
        soft_floors=lambda t: ["insert_path_empty_tree", "insert_path_leaf_split", "insert_path_path_split", "insert_path_path_split_optimistic", "insert_path_child_add"],
        technique="reference-model monitor on the size counter with insert-path classification from hook dumps",
    ),
    "C11": dict(
        title="every operation leaves the index well-formed",
        modes=PLAIN, level="exploration",
        rule="after every mutating operation of random histories, threshold walks and closed BFS explorations the structural dump (hook verif_walk.go) is checked: "
             ">=2 children per branch point, distinct ascending branch bytes equal to the keys' byte there, compressed path = shared bytes, fan-out counter = real children <= class capacity, "
             "reachable leaves = Size = model, and the class-free shape equals the compressed radix tree recomputed from the key set alone; "
             "distinct_nontrivial = distinct structural states (classes, lanes, paths, keys) observed",
        assumptions=COMMON_ASSUME + ["the 8-bit fan-out counter of a 256-slot node is compared modulo 256 (a full node reads 0)"],
        floors=lambda t: ["shape_checks", "closed_states", "units_sweep", "units_history"],
        soft_floors=lambda t: ["nodes_with_optimistic_path_seen", "full_256_nodes_seen",
                               "tr_merge_path_lt10", "tr_merge_path_eq10", "tr_merge_path_gt10", "tr_split_path_old_lt10", "tr_split_path_old_gt10"] + TRANSITION_FLOORS,
        technique="invariant hook: structural walker dump checked against radix-tree invariants and the canonical shape after every operation",
    ),
    "C14": dict(
        title="sequences can be abandoned early and iterated again",
        modes=PLAIN, level="exploration",
        rule="for every sequence method and argument set on contents from random histories: first complete pass R through an instrumented yield; every stop position (all if len<=64) must deliver R[:s+1] and no callback after false; "
             "the same sequence value is drained again 1-3 times (with read-only calls in between) and inside a nested consumer and must equal R; contents include 256-way fan-out families below other nodes and trees of 1500-3000 keys (collation: 300 case-variant pairs); distinct_nontrivial = distinct contents exercised",
        assumptions=COMMON_ASSUME,
        floors=lambda t: ["seq_early_stops", "seq_redrains", "seq_nested_consumers", "seq_values_All", "seq_values_Backward"],
        technique="protocol monitor: instrumented yield on the sequence value",
    ),
    "C15": dict(
        title="queries and no-op updates leave the tree untouched",
        modes=PLAIN, level="exploration",
        rule="every read-only call (Search present/absent/near, Minimum, Maximum, Size, All/Backward/TopK/BottomK/Range/Prefix drained fully or partially) and Delete(absent) is bracketed by two canonical structural digests of the hook dump; "
             "Insert(present) must change exactly that leaf's value; second oracle: at every check point the mutating calls made so far are replayed into a never-queried tree and Minimum/Maximum/Size/All/Backward/TopK/BottomK and Search of every stored and recently deleted key must agree between the two trees; distinct_nontrivial = distinct contents bracketed",
        assumptions=COMMON_ASSUME + ["only the canonical digest decides; raw-lane/address differences are counted and reported"],
        floors=lambda t: ["purity_bracketed_calls", "purity_overwrite_checks", "purity_search_present", "purity_search_near", "purity_delete_absent_near"],
        technique="invariant hook: canonical structural digest before/after each read-only or no-op call",
    ),
    "C08": dict(
        title="collation trees follow the configured collator and keep originals",
        modes=PLAIN, level="exploration",
        rule="for every collator configuration (9 languages x {plain,numeric} + IgnoreCase/IgnoreDiacritics/Loose/IgnoreWidth/Force sets) x key type (string, []byte; []rune with the default collator): "
             "random histories over multi-script strings (case/accent clusters, digit runs, 4-byte characters, long shared prefixes); map results and full All/Backward order are compared with a model ordered by an independent collator instance; "
             "strings whose oracle sort keys are equal are never co-stored (counted); distinct_nontrivial = distinct (configuration, key set) contents",
        assumptions=COMMON_ASSUME + ["order is judged relative to x/text's own sort keys computed by a separate Collator object, cross-checked with Collator.Compare on neighbours"],
        floors=lambda t: ["iter_all", "op_search_hit", "op_delete_present", "units_history"],
        technique="reference-model monitor with an independent collator instance as order oracle",
    ),
    "C09": dict(
        title="compound trees are ordered maps for every contract-respecting codec",
        modes=PLAIN, level="exploration",
        rule="random schemas (1-4 numeric fields + optional escaped string field) x two codecs (library-composed, independent); per schema random histories with map, iteration, extremes, range and size monitors against a model ordered by an independently written tuple comparator; "
             "distinct_nontrivial = distinct (schema, key set) contents",
        assumptions=COMMON_ASSUME + ["codecs are checked against the contract (injective, prefix-free, order-preserving) on generated tuples before use"],
        floors=lambda t: ["iter_all", "range_nonempty", "ext_minimum", "size_checks", "op_search_hit", "codec_contract_pairs"],
        technique="reference-model monitor over randomly generated codecs (programs) and histories",
    ),
}

PROPS["C07"] = dict(
    title="numeric encodings are order isomorphisms with exact round trip",
    modes=PLAIN, level="exploration",
    rule="the exported codec types are run directly. 8/16-bit types: every value in oracle order with a strictly-increasing chain check (quick) and all ordered pairs (8-bit always, 16-bit in thorough); "
         "32-bit types: chain over the domain in oracle order, all 2^32 values in thorough, a stride-257 sample with seed-dependent offsets in quick; 64-bit types: all ordered pairs of a boundary set (powers of two +-1, byte carries, every float exponent's extreme mantissas, zeros, infinities, NaN variants), +-k ulp chains, and PRNG pairs (random, one differing bit, shared leading bytes, close); "
         "per value: fixed width, both returned slices equal, bit-exact round trip; per pair: native order == bytewise order, no shared encoding (NaN/NaN excepted); tuple corollary on random schemas. "
         "distinct_nontrivial = values enumerated once by construction in sweeps (counter) + hash-set count of sampled 64-bit cases",
    assumptions=COMMON_ASSUME + ["oracle order is Go's native comparison plus Signbit/IsNaN for floats; nothing from keys.go"],
    floors=lambda t: ["chain_values_uint8", "chain_values_int16", "chain_values_float32", "chain_values_uint32", "chain_values_int32", "boundary_pairs_float64", "boundary_pairs_int64",
                      "random_pairs_uint64", "random_pairs_float64", "random_pairs_int", "random_pairs_uint", "tuple_pairs", "all_pairs_uint8", "all_pairs_int8", "append_onto_encoding_probes"],
    distinct_counter="distinct_by_construction",
    exhaustive_note="exhaustive flags per unit are in closed_universes_exhaustive; in thorough every 8/16/32-bit domain is enumerated completely, 64-bit domains are sampled",
    technique="oracle monitor over executions of the exported codecs: exhaustive sweeps for <=32 bit, boundary/random pairs for 64 bit",
)
PROPS["C10"] = dict(
    title="each inner node is a correct ordered byte->child table",
    modes=PLAIN, level="exploration",
    rule="node-level, through the hook verif_node.go: (1) searchNode4 vs 'lowest lane holding the byte' on a boundary-lane product x all probes and random words (quick) or the full 2^40 domain (thorough); insertPosNode4 effective slot vs sorted position on ascending lane sets "
         "(boundary+random values in quick, all C(256,<=4) sets in thorough) with zero or copied-maximum spare lanes; shift/get/set/construct helpers vs lane-wise specs; searchNode16/insertPosNode16 (assembly as built and the portable file compiled through an overlay) vs scalar scans for every fill count 0..16 x lane position x lane value x probe over 8 backgrounds, plus random arrays; "
         "(2) closed BFS over add/remove sequences on a bare node over boundary byte universes (crossing 4<->16), all 256 probes + both enumerations + extremes after every transition, again with hostile bytes poked into unoccupied lanes; (3) sweep/random walks through 48 and 256 with threshold oscillation. "
         "distinct_nontrivial = cases enumerated once by construction (counter) + hash-set count of sampled words/arrays/states",
    assumptions=COMMON_ASSUME + ["node16_arm64.s is excluded from the claim (cannot be executed here)", "the top lane after shiftRightClear is not asserted (the code is free to leave a stale byte there)"],
    floors=lambda t: ["search4_cases", "insertpos4_cases", "helper4_words", "node16_cases", "node16_impl_as-built", "closed_states", "units_walk"],
    soft_floors=lambda t: ["node16_impl_portable(node16_other.go)", "walk_reached_class_4", "walk_reached_class_16", "walk_reached_class_48", "walk_reached_class_256", "lookups_with_poked_lanes"],
    distinct_counter="distinct_by_construction",
    technique="scalar-specification oracle on the exported primitives + model-based monitor on a bare node handle (closure and walks)",
)
PROPS["C12"] = dict(
    title="recycled nodes never leak state between trees or across a tree's lifetime",
    modes=PLAIN, level="exploration", per_unit=True,
    rule="scenario = 2-8 trees of mixed kinds interleaved on one goroutine in random bursts with staggered starts, two thirds of them over a 256-way fan-out family (grow/shrink through every class); every tree carries map/iteration/size/extremes/shape monitors; "
         "each per-tree history is then replayed alone and the chain of result traces and canonical dumps must be identical step by step; a tree emptied by deletion is shadowed by a fresh tree fed the same continuation and their structural dumps must stay identical; "
         "half of the scenarios run pinned to one P with the collector mostly off so that a released node is what the next request of that class receives; every few bursts an iteration of one tree runs inside the loop body of another tree's iteration (after an abandoned descending pass); cross-tree reuse is measured from node addresses in the dumps. distinct_nontrivial = distinct scenarios (chains)",
    assumptions=COMMON_ASSUME + ["pool audit output is diagnostic only"],
    floors=lambda t: ["twin_runs", "empty_twins_started", "empty_twin_steps", "nested_cross_tree_iterations"],
    soft_floors=lambda t: ["reuse_across_trees_class_4", "reuse_across_trees_class_16", "reuse_across_trees_class_48", "reuse_across_trees_class_256"],
    technique="reference-model + structural-hook monitors under interleaving, twin-run trace comparison, measured pool reuse, sequence values kept pending across other trees' operations",
)
PROPS["C13"] = dict(
    title="key arguments are neither written to nor retained by reference",
    modes=lambda t: ["plain", "gcstress"] if t == "thorough" else ["plain"], level="exploration",
    rule="byte-slice alpha and collation trees: every key argument of Insert/Search/Delete/Prefix/Range is a sub-slice (spare capacity 0,1,2,7,64; empty keys included; both Range bounds in one array) of a canary-filled array whose full content is compared after the call, then scribbled over; "
         "shortened re-slices of keys yielded by the tree are used as Search arguments; the content is re-verified against a model built from clones; the pop idiom (k := Minimum(); Delete(k); Insert(other): the slice the caller holds must not change); a compound tree over fixed-width []byte keys with the library's byte-string codec; scanner idiom: one buffer reused for up to 20000 successive keys and operations; rune-slice collation keys: buffer reuse. distinct_nontrivial = distinct contents/units",
    assumptions=COMMON_ASSUME + ["a lazily evaluated sequence is drained before its bound buffers are overwritten"],
    floors=lambda t: ["canary_calls", "canary_calls_on_yielded_keys", "content_verifications", "scanner_ops", "rune_units"],
    technique="canary monitor on caller memory + reference-model and sequence monitors (All/Backward/extremes/Range/Prefix) after scribbling, content-before-vs-after-overwrite comparison",
)
PROPS["C16"] = dict(
    title="independent trees and concurrent readers are race-free",
    modes=lambda t: ["race"], level="exploration", per_unit=True, parallel=4,
    rule="worker built with -race; scenarios S1 private trees per goroutine (fan-out churn so nodes of every class cross the shared pools), S2 read-only query mixes on one quiescent shared tree (alpha string/[]byte, uint32, int64, float64, compound) with per-goroutine buffers and references, S3 both at once, S0 harness self-test without library calls; "
         "S2 readers also consume sequence values created once before the start barrier, all at the same time; each under several GOMAXPROCS x goroutine-count combinations with seeded Gosched injection; verdict = race detector report blocks naming go-art frames (de-duplicated) + per-goroutine results vs sequential references. distinct_nontrivial = distinct scenario executions",
    assumptions=COMMON_ASSUME + ["the race detector only sees interleavings that execute; its happens-before analysis does not need the racing accesses to collide in time"],
    floors=lambda t: ["units_S1_private_trees", "units_S2_shared_readers", "units_S3_mixed", "units_selftest", "goroutine_pairs_with_overlapping_run_intervals", "shared_sequence_value_passes"],
    technique="Go race detector over seeded concurrent scenarios + sequential-reference comparison",
)
PROPS["C17"] = dict(
    title="memory held by a tree is proportional to its content, not its history",
    modes=PLAIN, level="exploration", per_unit=True,
    rule="one process per kind; tree of 1000 keys; HeapAlloc after two forced collections before/after each isolated phase of N operations: every query method on its own (present/absent search, absent delete, extremes, full and abandoned All/Backward/TopK/BottomK/Range/Prefix), overwrites, delete/re-insert of the same keys, sliding window of fresh keys; "
         "limit = 256 KiB + 0.5 B/op; goroutine count compared; every query method once on an empty tree first; 40 keys of 12 bytes cut out of 1 MiB strings / slices with 1 MiB spare capacity must not cost more than 256 KiB; a dense block of 40 fan-out families inserted and removed must leave <= 64 KiB; after deleting everything the emptied tree must keep <= 64 KiB alive (measured against a new tree and differentially by releasing it). distinct_nontrivial = kinds measured",
    assumptions=COMMON_ASSUME + ["leaks below about 0.5 B/op and off-heap memory are invisible"],
    floors=lambda t: ["ops_search_present", "ops_overwrite", "ops_delete_reinsert_same_keys", "ops_prefix", "ops_range_narrow", "ops_topk_abandoned", "delete_all_checks", "ops_keys_from_large_buffers"],
    technique="heap monitor: live heap after forced GC against byte/operation thresholds and content-dependent bounds (survivor pattern)",
)
PROPS["C18"] = dict(
    title="stored keys and values of any type survive garbage collection",
    modes=lambda t: ["gcstress", "asan"] if t == "thorough" else ["gcstress"], level="exploration", per_unit=False,
    rule="8 value types (pointer to struct with string/slice/nested pointer, heap string, slice, zero-size struct, 256-byte struct with interior pointer, any, map, uint64) x 8 key kinds (alpha string/[]byte, uint32, int64, float64, collation string/[]rune, compound): "
         "random insert/overwrite/delete histories built with -d=checkptr under GOGC=1, GODEBUG=clobberfree=1 and forced collections every 1/7/64 operations; the reference holds recipes only, so stored objects are reachable through the tree alone; after collections everything is read back through Search, All and Range and compared deeply. "
         "distinct_nontrivial = (key kind, value type) combinations completed",
    assumptions=COMMON_ASSUME + ["process-fatal reports (checkptr, runtime throw, ASan) are attributed through the pre-logged unit name"],
    floors=lambda t: ["forced_collections", "gc_readbacks", "gc_range_readbacks", "units_combo"],
    technique="deep-equality monitor from recipes under GC stress with checkptr (and ASan in thorough); finalizer monitor on values across trees of different value types",
)


def manifest_note(prop):
    return PROPS[prop]["assumptions"]


# rangeScan / Prefix build slices over node memory with unsafe: repeat the quick workload under checkptr + GC stress in thorough
for _p in ("C03", "C04", "C02"):
    PROPS[_p]["modes"] = lambda tier: ["plain", "cover", "gcstress"] if tier == "thorough" else ["plain"]
    PROPS[_p]["quick_tier_modes"] = ("cover", "gcstress")

PROPS["C19"] = dict(
    title="generated trees are what the generator produces",
    modes=lambda t: [], level="translation_validation",
    rule="", assumptions=["the repository's own pipeline (go run cmd/go-art/main.go; gofmt -w trees.go) is the reference translation"],
    custom=c19.run,
    technique="translation validation by observed execution: regenerate in a scratch copy and byte-compare",
)
