"""C19: the checked-in generated trees are what the generator produces.

Observed execution: copy the working tree to a scratch directory, delete
trees.go there, run the repository's own pipeline (the go:generate lines of
gen.go) and compare the result byte for byte with /repo/trees.go.
"""
import difflib
import hashlib
import json
import os
import re
import shutil
import subprocess
import time

VERIF = os.path.dirname(os.path.dirname(os.path.abspath(__file__)))


def _env():
    env = dict(os.environ)
    env.update({"GOPROXY": "off", "GOFLAGS": "-mod=mod"})
    return env


def _generate(workdir):
    p = subprocess.run(["go", "run", "cmd/go-art/main.go"], cwd=workdir, env=_env(), stdout=subprocess.PIPE, stderr=subprocess.STDOUT, text=True)
    if p.returncode != 0:
        return "generator failed:\n" + p.stdout[-3000:]
    p = subprocess.run(["gofmt", "-w", "trees.go"], cwd=workdir, env=_env(), stdout=subprocess.PIPE, stderr=subprocess.STDOUT, text=True)
    if p.returncode != 0:
        return "gofmt failed:\n" + p.stdout[-3000:]
    return None


def _blocks(text):
    """Split a trees.go into its instantiations, keyed by leaf type name."""
    idx = [(m.start(), m.group(1)) for m in re.finditer(r"^type (\w+LeafNode)\[V any\] struct", text, re.M)]
    out = {"<header>": text[: idx[0][0]] if idx else text}
    for i, (pos, name) in enumerate(idx):
        end = idx[i + 1][0] if i + 1 < len(idx) else len(text)
        out[name] = text[pos:end]
    return out


def run(prop, tier, seed, scratch, t0, replay):
    repo = os.environ.get("VERIF_REPO", "/repo")
    work = os.path.join(scratch, "repo")
    shutil.copytree(repo, work, ignore=shutil.ignore_patterns(".git"))
    checked_in = open(os.path.join(repo, "trees.go")).read()
    os.remove(os.path.join(work, "trees.go"))
    err = _generate(work)
    if err:
        print("INCONCLUSIVE property=%s reason=generator\n%s" % (prop, err), flush=True)
        return 2
    fresh = open(os.path.join(work, "trees.go")).read()
    # the generator must be a function of the template: regenerate several more times from scratch
    # (a run-to-run difference, e.g. from map iteration order, is a difference from the checked-in file)
    reruns = 15 if tier == "quick" else 47
    unstable = 0
    for _ in range(reruns):
        os.remove(os.path.join(work, "trees.go"))
        e = _generate(work)
        if e:
            print("INCONCLUSIVE property=%s reason=generator\n%s" % (prop, e), flush=True)
            return 2
        again = open(os.path.join(work, "trees.go")).read()
        if again != fresh:
            unstable += 1
            if fresh == checked_in:
                fresh = again  # report the differing output
    # also: regenerating OVER the existing file (the generator opens without O_TRUNC)
    shutil.copy(os.path.join(repo, "trees.go"), os.path.join(work, "trees.go"))
    err2 = _generate(work)
    over = open(os.path.join(work, "trees.go")).read() if not err2 else None

    gb, cb = _blocks(fresh), _blocks(checked_in)
    names = [n for n in gb if n != "<header>"]
    samples, differing = [], []
    for n in sorted(set(gb) | set(cb)):
        g, c = gb.get(n), cb.get(n)
        same = g == c
        samples.append({"instantiation": n, "identical": same,
                        "sha256_generated": hashlib.sha256((g or "").encode()).hexdigest()[:16],
                        "sha256_checked_in": hashlib.sha256((c or "").encode()).hexdigest()[:16],
                        "bytes": len(g or "")})
        if not same:
            differing.append(n)
    violations = 0
    if fresh != checked_in:
        violations = 1
        os.makedirs(os.path.join(VERIF, "replays"), exist_ok=True)
        diff = "".join(difflib.unified_diff(checked_in.splitlines(True), fresh.splitlines(True), "trees.go (checked in)", "trees.go (regenerated)", n=2))
        path = os.path.join(VERIF, "replays", "C19-%s-seed%d.json" % (tier, seed))
        json.dump({"prop": prop, "tier": tier, "seed": seed, "unit": "regenerate", "mode": "plain",
                   "what": "regenerated trees.go differs from the checked-in file", "differing_instantiations": differing, "diff": diff[:20000]},
                  open(path, "w"), indent=1)
        print("  differing instantiations: %s" % ", ".join(differing), flush=True)
        print(diff[:1500], flush=True)
        print("VIOLATION property=%s replay=%s" % (prop, path), flush=True)
    wall = time.time() - t0
    if not replay and not os.environ.get("VERIF_NO_EVIDENCE"):
        evidence = {
            "property_id": prop, "tier": tier, "seed": seed, "level": "translation_validation",
            "coverage": {
                "programs": len(names),
                "disagreements_checked": len(differing),
                "samples": samples,
                "evaluations": len(samples),
                "distinct_nontrivial": len(names),
                "rule": "one program per template instantiation (alpha, unsigned, signed, float, compound): the generator is executed in a scratch copy of the working tree (16 times from scratch in quick, 48 in thorough, plus once over the existing file) and each generated block is byte-compared with the checked-in block",
                "exhaustive": True,
                "regenerate_over_existing_file_identical": (over == checked_in) if over is not None else None,
                "regenerations_from_scratch": reruns + 1,
                "regenerations_differing_from_the_first": unstable,
                "total_bytes_compared": len(fresh),
            },
            "assumptions": ["the repository's own pipeline (go run cmd/go-art/main.go; gofmt -w trees.go) is the reference translation",
                            "gofmt and the Go toolchain are trusted"],
            "wall_s": round(wall, 2), "violations": violations,
        }
        os.makedirs(os.path.join(VERIF, "evidence"), exist_ok=True)
        json.dump(evidence, open(os.path.join(VERIF, "evidence", prop + ".json"), "w"), indent=1, sort_keys=True)
    print("%s %s: programs=%d differing=%d wall=%.1fs" % (prop, tier, len(names), len(differing), wall), flush=True)
    return 1 if violations else 0
