#!/usr/bin/env python3
"""Regenerate /verif/MANIFEST.json from lib/proptable.py (single source of truth)."""
import json
import os
import subprocess
import sys

VERIF = os.path.dirname(os.path.dirname(os.path.abspath(__file__)))
sys.path.insert(0, os.path.join(VERIF, "lib"))
import proptable  # noqa: E402

LEVEL_TEXT = {
    "C01": "Runtime monitoring: every result of every Insert/Delete/Search of generated hostile histories (all key-type instantiations, threshold walks, closed small-universe BFS) is compared with an ideal map. Held-on-observed-executions; the evidence file lists operations, contents and structural transitions actually seen.",
    "C02": "Runtime monitoring: full forward and backward iteration compared with an independently sorted reference at check points of the same hostile histories. Exploration level: only generated contents are judged.",
    "C03": "Runtime monitoring: Range results for bound pairs of every stated class compared with the filtered sorted reference over generated contents; carve-outs skipped and counted.",
    "C04": "Runtime monitoring: Prefix results compared with the HasPrefix-filtered reference for arguments derived from stored keys (cuts around the 10-byte inline limit, divergences, extensions) on byte-string and in-scope collation trees.",
    "C05": "Runtime monitoring: extremes and k-bounded sequences compared with the ends of the sorted reference at check points, for n including 0, size+-1 and MaxUint.",
    "C06": "Runtime monitoring: Size() compared with the reference cardinality after every mutating operation and with count(All()); every insertion path (empty / leaf split / path split / optimistic path split / child add) must have been observed (coverage floor).",
    "C07": "Runtime monitoring of the exported codecs against Go's native order and bit patterns: complete enumeration of every 8/16/32-bit domain in the thorough tier (strictly increasing chains imply the isomorphism for all pairs), boundary-set and PRNG pairs for 64-bit types.",
    "C08": "Runtime monitoring: map results and iteration order of collation trees for 24 collator configurations x 3 key types compared with a model ordered by an independent collator instance.",
    "C09": "Runtime monitoring over generated programs: random field schemas and two codec implementations; every Tree method of the compound tree compared with a reference ordered by an independently written tuple comparator.",
    "C10": "Runtime monitoring at node level through build-tag-guarded exports: SWAR/SIMD primitives against scalar specifications (complete 2^40 domain for searchNode4 and all ascending lane sets for insertPosNode4 in thorough; full lane/value/probe sweeps for the 16-slot routines, assembly and portable), closed BFS and walks on a bare node compared with a byte->child map.",
    "C11": "Runtime monitoring with an invariant hook: after every single operation the structural dump is checked against the radix-tree invariants and against the canonical shape recomputed from the key set; closed BFS over purpose-built universes is exhaustive for those universes.",
    "C12": "Runtime monitoring of interleaved trees on one goroutine: per-tree reference and shape monitors, twin-run comparison (same history alone), fresh-tree twins after a tree is emptied, with measured cross-tree node reuse for every size class (coverage floor).",
    "C13": "Runtime monitoring of caller memory: canary-filled backing arrays compared byte for byte after each call; content re-verified after the caller scribbles over or reuses its buffers.",
    "C14": "Runtime monitoring of the iterator protocol: an instrumented yield records deliveries, stops at every position and counts callbacks after false; the same sequence value is re-drained and consumed by nested consumers.",
    "C15": "Runtime monitoring with the structural hook: a canonical digest of the whole index before and after every read-only or no-op call, plus a differential oracle for the 'hence' clause: the mutating calls are replayed into a never-queried tree and every observable answer must agree.",
    "C16": "Sanitizer as oracle: the worker is built with -race and runs seeded multi-goroutine scenarios under several GOMAXPROCS/goroutine counts; any report block naming library frames is a violation; results are also compared with sequential references.",
    "C17": "Runtime heap measurement: live heap after forced collections before/after isolated phases of N operations per method, one process per kind, byte/operation thresholds far below a per-operation leak.",
    "C18": "Runtime monitoring under GC stress: checkptr-instrumented build, GOGC=1, clobberfree, forced collections; deep equality against recomputed recipes so that only the tree keeps objects alive; ASan build in thorough.",
    "C19": "Translation validation by observed execution: the repository's own generator pipeline is executed repeatedly in a scratch copy and every output compared byte for byte with the checked-in file, per instantiation.",
}

DESIGN_REF = {p: "DESIGN.md section 4 (%s)" % p for p in LEVEL_TEXT}


def hook_commits():
    out = subprocess.run(["git", "-C", "/repo", "log", "--format=%H %s"], stdout=subprocess.PIPE, text=True).stdout
    return [l.split()[0] for l in out.splitlines() if " verif hook:" in l]


def main():
    checks = []
    for pid in sorted(proptable.PROPS):
        spec = proptable.PROPS[pid]
        checks.append({
            "property_id": pid,
            "quick_cmd": "bin/check %s quick" % pid,
            "thorough_cmd": "bin/check %s thorough" % pid,
            "evidence_file": "/verif/evidence/%s.json" % pid,
            "replay_cmd_template": "bin/check %s --replay {path}" % pid,
            "engine": "go-art-runtime-monitors",
            "level_claimed": {"category": spec["level"], "text": LEVEL_TEXT[pid], "design_ref": DESIGN_REF[pid]},
            "level_note": "; ".join(spec["assumptions"]),
            "technique": spec["technique"],
        })
    manifest = {
        "version": 1,
        "setup_cmd": "cd /verif/harness && export GOPROXY=off GOFLAGS=-mod=mod && go build -tags verif -o /dev/null ./cmd/worker && go build -tags verif -race -o /dev/null ./cmd/worker && go build -tags verif -gcflags=all=-d=checkptr -o /dev/null ./cmd/worker && python3 -c 'import sys; sys.path.insert(0, \"/verif/lib\"); import proptable, orchestrator'",
        "hooks": {
            "guard": "verif",
            "enable": "go build -tags verif (the harness module resolves github.com/Clement-Jean/go-art by replace => /repo, so every check rebuilds the library from the current working tree)",
            "baseline_off_cmd": "cd /repo && GOPROXY=off GOFLAGS=-mod=mod go test -json -vet=off -count=1 -timeout 25m ./...",
            "source_commits": hook_commits(),
            "add_only": True,
        },
        "engines": [{
            "name": "go-art-runtime-monitors",
            "path": "/verif/harness (Go worker), /verif/lib (python3 orchestrator), /verif/bin/check",
            "serves_properties": sorted(proptable.PROPS),
            "kind_free_text": "runtime monitoring: reference-model monitors, structural invariant hooks, iterator-protocol monitor, canary/heap/GC monitors, Go race detector, checkptr/ASan builds; one worker binary per build mode, sharded over processes",
        }],
        "checks": checks,
        "not_applicable": [],
        "notes": "VERIF_SEED seeds every PRNG stream (default 1). Exit 2 = inconclusive (build failure, watchdog, coverage floor not reached). KNOWN_FINDINGS.txt lists open findings and fixed defects; see DESIGN.md section 5.",
    }
    with open(os.path.join(VERIF, "MANIFEST.json"), "w") as f:
        json.dump(manifest, f, indent=1)
    print("MANIFEST.json written with", len(checks), "checks")


if __name__ == "__main__":
    main()
