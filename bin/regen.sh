#!/bin/sh
# Regenerate /repo/trees.go from the template exactly as the repository's own pipeline does
# (go:generate lines in gen.go), in place.
set -e
cd /repo
rm -f trees.go.new
cp trees.go /tmp/trees.go.bak.$$
rm trees.go
if GOPROXY=off GOFLAGS=-mod=mod go run cmd/go-art/main.go && gofmt -w trees.go; then rm -f /tmp/trees.go.bak.$$; else mv /tmp/trees.go.bak.$$ trees.go; exit 1; fi
